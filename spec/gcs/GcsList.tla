------------------------------- MODULE GcsList ------------------------------
(***************************************************************************)
(* Object listing (C11): the denotation of a list request and the          *)
(* acceptance predicate for a WHOLE pagination (all pages obtained by      *)
(* following nextPageToken until it is empty).                             *)
(* names: the set of object names of the bucket (byte strings).            *)
(***************************************************************************)
EXTENDS Bytes, Integers, Sequences, FiniteSets

Matching(names, prefix) == {n \in names : IsPrefixB(prefix, n)}
\* position (1-based) of the first occurrence of the delimiter after the prefix, 0 if none / no delimiter
DelimAt(n, prefix, delim) == IF delim = <<>> THEN 0 ELSE IndexFrom(n, delim, Len(prefix) + 1)
Collapsed(n, prefix, delim) == DelimAt(n, prefix, delim) > 0
PrefixOf(n, prefix, delim)  == SubSeq(n, 1, DelimAt(n, prefix, delim) + Len(delim) - 1)

ItemNames(names, prefix, delim) == {n \in Matching(names, prefix) : ~Collapsed(n, prefix, delim)}
Prefixes(names, prefix, delim)  == {PrefixOf(n, prefix, delim) : n \in {m \in Matching(names, prefix) : Collapsed(m, prefix, delim)}}

\* pages: Seq([items : Seq(name), prefixes : Seq(prefix)]); ended: the last page carried no token
Accept(pages, ended, names, prefix, delim, maxResults) ==
  LET items == ConcatAll([i \in 1..Len(pages) |-> pages[i].items])
      pfx   == ConcatAll([i \in 1..Len(pages) |-> pages[i].prefixes])
  IN /\ ended
     \* every matching, non-collapsed name exactly once, in ascending bytewise order
     /\ items = SortBytes(ItemNames(names, prefix, delim))
     \* each distinct collapsed prefix exactly once over the pagination
     /\ Len(pfx) = Cardinality({pfx[i] : i \in 1..Len(pfx)})
     /\ {pfx[i] : i \in 1..Len(pfx)} = Prefixes(names, prefix, delim)
     \* no page holds more than maxResults entries
     /\ \A i \in 1..Len(pages) : Len(pages[i].items) + Len(pages[i].prefixes) <= maxResults

\* sanity of the denotation itself (checked by TLC over the name universe, MC_GcsList):
\* every matching name is an item or lies under exactly one reported prefix, never both
DenotationOK(names, prefix, delim) ==
  \A n \in Matching(names, prefix) :
     (n \in ItemNames(names, prefix, delim)) # (\E p \in Prefixes(names, prefix, delim) : IsPrefixB(p, n) /\ p = PrefixOf(n, prefix, delim))
=============================================================================
