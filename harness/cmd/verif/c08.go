package main

import (
	"bytes"
	"encoding/json"
	"fmt"
	"math/rand"
	"net"
	"os"
	"os/exec"
	"strings"
	"sync"
	"syscall"
	"time"

	"verif/harness/internal/bt"
	"verif/harness/internal/j"
	"verif/harness/internal/tlc"
)

func init() { checks["C08"] = checkC08 }

// child is one cbtemulator process (built from /repo's working tree with -tags verif) on a data directory.
type child struct {
	cmd    *exec.Cmd
	addr   string
	srv    *bt.Server
	out    *lineWriter   // stdout
	errOut *bytes.Buffer // stderr (complete once the process has exited)
	exited chan struct{} // closed when the process has been waited for
}

// lineWriter collects a process's standard output and signals when the emulator announces that it is serving.
type lineWriter struct {
	mu    sync.Mutex
	buf   bytes.Buffer
	ready chan struct{}
	once  sync.Once
}

func (w *lineWriter) Write(p []byte) (int, error) {
	w.mu.Lock()
	w.buf.Write(p)
	up := bytes.Contains(w.buf.Bytes(), []byte("emulator running on"))
	w.mu.Unlock()
	if up {
		w.once.Do(func() { close(w.ready) })
	}
	return len(p), nil
}

func (w *lineWriter) String() string {
	w.mu.Lock()
	defer w.mu.Unlock()
	return w.buf.String()
}

func freePort() int {
	l, err := net.Listen("tcp", "127.0.0.1:0")
	if err != nil {
		panic(err)
	}
	defer l.Close()
	return l.Addr().(*net.TCPAddr).Port
}

// startChild launches the emulator; crashAt = "<hook point>#<n>" makes it SIGKILL itself at the n-th hit of that point.
func startChild(dir, crashAt string, parents []string) (*child, error) {
	// the port is chosen by asking the kernel for a free one and closing it again; another process may take it
	// in between (many children are started in parallel): try again with another port then
	for attempt := 0; ; attempt++ {
		c, err := startChildOnce(dir, crashAt, parents)
		if err != nil && attempt < 8 && strings.Contains(err.Error(), "address already in use") {
			continue
		}
		return c, err
	}
}

func startChildOnce(dir, crashAt string, parents []string) (*child, error) {
	port := freePort()
	cmd := exec.Command(verifRoot+"/bin/cbtemulator", "-host", "127.0.0.1", "-port", fmt.Sprint(port), "-dir", dir)
	cmd.Env = append(os.Environ(), "VERIF_CRASH_AT="+crashAt)
	c := &child{cmd: cmd, addr: fmt.Sprintf("127.0.0.1:%d", port), out: &lineWriter{ready: make(chan struct{})}, errOut: &bytes.Buffer{}, exited: make(chan struct{})}
	cmd.Stdout, cmd.Stderr = c.out, c.errOut
	if err := cmd.Start(); err != nil {
		return nil, err
	}
	go func() { _ = cmd.Wait(); close(c.exited) }()
	select {
	case <-c.out.ready:
	case <-c.exited:
		return nil, fmt.Errorf("emulator exited during start-up: %s %s", c.out.String(), c.errOut.String())
	case <-time.After(20 * time.Second):
		_ = cmd.Process.Kill()
		<-c.exited
		return nil, fmt.Errorf("emulator did not come up within 20 s")
	}
	srv, err := bt.Connect(c.addr)
	if err != nil {
		c.kill()
		return nil, err
	}
	for _, p := range parents {
		srv.AddParent(p)
	}
	c.srv = srv
	return c, nil
}

func (c *child) kill() {
	if c.srv != nil {
		c.srv.Close()
	}
	_ = c.cmd.Process.Signal(syscall.SIGKILL)
	<-c.exited
}

func (c *child) alive() bool {
	select {
	case <-c.exited:
		return false
	default:
		return true
	}
}

// crash program: ops, with a plan of where to kill
type crashPlan struct {
	Ops    []bt.Op
	KillAt map[int]string // step index (1-based, after that step's reply) -> "boundary"; or before issuing step i: "<point>#<n>" meaning restart the child armed to die inside step i
	ArmAt  map[int]string
	// Parallel > 0: not a sequential program but that many rounds of concurrent schema changes on different tables,
	// each followed by a kill
	Parallel int
}

// runCrashProgram drives a real emulator process through the program, killing and restarting it as planned; returns the trace.
func runCrashProgram(tr int, plan crashPlan) []bt.Op {
	if plan.Parallel > 0 {
		return runParallelMetaProgram(tr, plan.Parallel)
	}
	dir := tmpDir()
	defer os.RemoveAll(dir)
	out := []bt.Op{{Ev: "Reset", Tr: tr}}
	var parents []string
	ch, err := startChild(dir, "", nil)
	if err != nil {
		return append(out, bt.Op{Ev: "Crash", Tr: tr, I: 1, Started: false, Point: "initial start: " + err.Error(), Obs: &bt.Obs{}})
	}
	defer func() {
		if ch != nil {
			ch.kill()
		}
	}()
	restart := func(i int, point string, inflight *bt.Op) bool {
		parents = ch.srv.Parents()
		ch.kill()
		n, err := startChild(dir, "", parents)
		ev := bt.Op{Ev: "Crash", Tr: tr, I: i, Point: point, HasInflight: inflight != nil, Inflight: inflight, Started: err == nil}
		if inflight == nil {
			ev.Inflight = &bt.Op{Ev: "none"}
		}
		if err != nil {
			ev.Point += " / restart failed: " + err.Error()
			ev.Obs = &bt.Obs{}
			out = append(out, ev)
			ch = nil
			return false
		}
		ch = n
		ev.Obs = ch.srv.Observe()
		out = append(out, ev)
		return true
	}
	step := 0
	for i := range plan.Ops {
		op := plan.Ops[i]
		step++
		op.Tr, op.I = tr, step
		op.Resp, op.Obs = nil, nil
		if arm, ok := plan.ArmAt[i+1]; ok {
			// restart the emulator armed to kill itself inside this request (the restart itself is a clean boundary crash)
			parents = ch.srv.Parents()
			if strings.HasPrefix(arm, "newDiskDb.afterOpen#") {
				// this point is also passed once per existing table while the emulator starts: aim past those
				if o := ch.srv.Observe(); o != nil {
					arm = fmt.Sprintf("newDiskDb.afterOpen#%d", len(o.Tables)+1)
				}
			}
			ch.kill()
			n, err := startChild(dir, arm, parents)
			ev := bt.Op{Ev: "Crash", Tr: tr, I: step, Point: "boundary (re-arm)", Inflight: &bt.Op{Ev: "none"}, Started: err == nil, Obs: &bt.Obs{}}
			if err != nil {
				out = append(out, ev)
				ch = nil
				return out
			}
			ch = n
			ev.Obs = ch.srv.Observe()
			out = append(out, ev)
			step++
			op.I = step
			ch.srv.Exec(&op)
			if !ch.alive() || op.Resp.Code == 14 || op.Resp.Code == 13 || op.Resp.Code == 2 && strings.Contains(op.Resp.Msg, "transport") {
				// died inside the request: it is in flight (unacknowledged)
				inflight := op
				inflight.Resp, inflight.Obs = nil, nil
				if !restart(step, arm, &inflight) {
					return out
				}
				continue
			}
			// the armed point was not reached by this request: it completed normally
			op.Obs = ch.srv.Observe()
			out = append(out, op)
			// disarm: clean restart
			step++
			if !restart(step, "boundary (disarm)", nil) {
				return out
			}
			continue
		}
		ch.srv.Exec(&op)
		op.Obs = ch.srv.Observe()
		out = append(out, op)
		if how, ok := plan.KillAt[i+1]; ok {
			step++
			if !restart(step, how, nil) {
				return out
			}
		}
	}
	return out
}

// runParallelMetaProgram: schema changes on DIFFERENT tables issued at the same moment, then a kill and a restart:
// requests on different tables commute, so the recovered state must be the one all acknowledged requests produce in
// any order (they are logged in the order of their replies). What one table's persistence does must not disturb
// another's.
func runParallelMetaProgram(tr int, rounds int) []bt.Op {
	dir := tmpDir()
	defer os.RemoveAll(dir)
	out := []bt.Op{{Ev: "Reset", Tr: tr}}
	parent := "projects/p/instances/i"
	ch, err := startChild(dir, "", []string{parent})
	if err != nil {
		return append(out, bt.Op{Ev: "Crash", Tr: tr, I: 1, Started: false, Point: "initial start: " + err.Error(), Obs: &bt.Obs{}})
	}
	defer func() {
		if ch != nil {
			ch.kill()
		}
	}()
	step := 0
	const ntab = 6
	tname := func(i int) j.B { return j.S(fmt.Sprintf("%s/tables/par%d", parent, i)) }
	for i := 0; i < ntab; i++ {
		step++
		op := bt.Op{Ev: "CreateTable", T: tname(i), Parent: j.S(parent), Tr: tr, I: step, Fams: []bt.FamDef{{F: j.S("f"), Rule: bt.Rule{T: "none"}}}}
		ch.srv.Exec(&op)
		op.Obs = ch.srv.Observe()
		out = append(out, op)
	}
	for r := 0; r < rounds; r++ {
		var mu sync.Mutex
		var wg sync.WaitGroup
		var done []bt.Op
		for i := 0; i < ntab; i++ {
			wg.Add(1)
			go func(i int) {
				defer wg.Done()
				kind := "create"
				if r%2 == 1 {
					kind = "drop"
				}
				op := bt.Op{Ev: "ModifyFamilies", T: tname(i), Mods: []bt.Mod{{K: kind, F: j.S(fmt.Sprintf("h%d", i)), Rule: bt.Rule{T: "maxver", N: 1 + i}}}}
				ch.srv.Exec(&op)
				mu.Lock()
				done = append(done, op)
				mu.Unlock()
			}(i)
		}
		wg.Wait()
		for _, op := range done {
			step++
			op.Tr, op.I = tr, step
			op.Obs = &bt.Obs{Skip: true}
			out = append(out, op)
		}
		step++
		parents := ch.srv.Parents()
		ch.kill()
		n, err := startChild(dir, "", parents)
		ev := bt.Op{Ev: "Crash", Tr: tr, I: step, Point: "boundary after concurrent schema changes", Inflight: &bt.Op{Ev: "none"}, Started: err == nil, Obs: &bt.Obs{}}
		if err != nil {
			ev.Point += " / restart failed: " + err.Error()
			out = append(out, ev)
			ch = nil
			return out
		}
		ch = n
		ev.Obs = ch.srv.Observe()
		out = append(out, ev)
	}
	return out
}

func genCrashProgram(r *rand.Rand) crashPlan {
	g := gen{r}
	// table ids that are string prefixes of each other (t, t2, t.x) under one instance, and the same id under an
	// instance whose name extends the first one's: what is stored under one table's name must not be taken for,
	// or removed with, another's
	tables := []j.B{j.S("projects/p/instances/i/tables/t"), j.S("projects/p/instances/i/tables/t2"), j.S("projects/p/instances/i2/tables/t"), j.S("projects/p/instances/i/tables/t.x")}
	parentOf := func(t j.B) j.B {
		if string(t) == "projects/p/instances/i2/tables/t" {
			return j.S("projects/p/instances/i2")
		}
		return j.S("projects/p/instances/i")
	}
	fams := []j.B{j.S("f"), j.S("g")}
	var ops []bt.Op
	n := 8 + g.pick(12)
	for len(ops) < n {
		t := tables[g.pick(len(tables))]
		if g.chance(0.5) {
			t = tables[0]
		}
		switch x := g.r.Float64(); {
		case x < 0.18 || len(ops) == 0:
			op := bt.Op{Ev: "CreateTable", T: t, Parent: parentOf(t)}
			for _, f := range fams[:1+g.pick(2)] {
				op.Fams = append(op.Fams, bt.FamDef{F: f, Rule: g.rule(1)})
			}
			ops = append(ops, op)
		case x < 0.26:
			ops = append(ops, bt.Op{Ev: "DeleteTable", T: t})
		case x < 0.38:
			// one to three modifications; the rules come from a set of two, so that an update often restates the rule the
			// family already has (a modification that changes nothing, possibly the last one of a request that does)
			var mods []bt.Mod
			for k, nm := 0, 1+g.pick(3); k < nm; k++ {
				rule := []bt.Rule{{T: "maxver", N: 1}, {T: "none"}}[g.pick(2)]
				mods = append(mods, bt.Mod{K: []string{"create", "update", "update", "drop"}[g.pick(4)], F: []j.B{j.S("f"), j.S("g"), j.S("h")}[g.pick(3)], Rule: rule})
			}
			ops = append(ops, bt.Op{Ev: "ModifyFamilies", T: t, Mods: mods})
		case x < 0.46:
			op := bt.Op{Ev: "DropRowRange", T: t}
			if g.chance(0.6) {
				op.All = true
			} else {
				op.HasPrefix, op.Prefix = true, j.S("a")
			}
			ops = append(ops, op)
		case x < 0.54:
			ops = append(ops, bt.Op{Ev: "MutateRow", T: t, K: g.key(), Muts: []bt.Mut{{M: "delrow"}}, Now: 5000})
		case x < 0.60:
			op := bt.Op{Ev: "MutateRows", T: t, Now: 5000}
			for e := 0; e < 2+g.pick(3); e++ {
				op.Entries = append(op.Entries, bt.Entry{K: g.key(), Muts: []bt.Mut{{M: "set", F: fams[g.pick(2)], Q: g.qual(), Ts: j.N64(goodTs[g.pick(5)]), V: g.val()}}})
			}
			ops = append(ops, op)
		default:
			var ms []bt.Mut
			for m := 0; m < 1+g.pick(3); m++ {
				ms = append(ms, bt.Mut{M: "set", F: []j.B{j.S("f"), j.S("g"), j.S("h")}[g.pick(3)], Q: g.qual(), Ts: j.N64(goodTs[g.pick(5)]), V: g.val()})
			}
			ops = append(ops, bt.Op{Ev: "MutateRow", T: t, K: g.key(), Muts: ms, Now: 5000})
		}
	}
	plan := crashPlan{Ops: ops, KillAt: map[int]string{}, ArmAt: map[int]string{}}
	points := []string{"Delete.afterMetaRemove", "SetTableMeta.afterMkdir", "SetTableMeta.afterTmpWrite", "SetTableMeta.afterRename", "Create.afterMeta", "newDiskDb.afterRemoveAll", "newDiskDb.afterOpen", "Clear.afterClose"}
	for i := range ops {
		switch {
		case g.chance(0.22):
			plan.KillAt[i+1] = "boundary"
		case g.chance(0.25) && (ops[i].Ev == "CreateTable" || ops[i].Ev == "DeleteTable" || ops[i].Ev == "ModifyFamilies" || ops[i].Ev == "DropRowRange" && ops[i].All):
			plan.ArmAt[i+1] = points[g.pick(len(points))] + "#1"
		}
	}
	plan.KillAt[len(ops)] = "boundary"
	return plan
}

// C08 Bigtable: disk storage recovers exactly the acknowledged state after a crash.
func checkC08(c *Ctx) {
	c.rule = "cases = request programs (admin and data) run against a real cbtemulator -dir process built from the working tree; the process is killed (SIGKILL) at request boundaries and, armed through VERIF_CRASH_AT, at every instrumented point inside metadata persistence / table create / table clear, then restarted on the same directory (repeatedly within one program); after every restart ListTables/GetTable/ReadRows of everything is recorded and TLC (BtTrace, Crash event) requires the recovered state to be the acknowledged state with the in-flight request wholly present or wholly absent, and the restart itself to succeed; the design (file-system steps, crash at any step, recovery) is model-checked as BtDisk; distinct = distinct (program, kill plan); non-trivial = at least one kill"
	r := rand.New(rand.NewSource(c.Seed))
	// M: the persistence design: intended configuration holds; the two deviations the code has are shown to violate it
	atomicDrop := "TRUE"
	mk := func(del, metaLast string, invs []string) cfg {
		return cfg{Spec: "Spec", Constants: map[string]string{"Tables": "{1, 2}", "Keys": "{1, 2}", "MaxReqs": "5", "MaxCrashes": "2", "DeleteOnDisk": del, "MetaLast": metaLast, "AtomicFamilyDrop": atomicDrop}, Invariants: invs}
	}
	c.runModel("MC_BtDisk", mk("TRUE", "TRUE", []string{"RecoveredOK", "Consistent"}), 8, 20*time.Minute, false)
	for name, cf := range map[string]cfg{"model_delete_only_in_memory_violates": mk("FALSE", "TRUE", []string{"RecoveredOK", "Consistent"}), "model_meta_before_clear_violates": mk("TRUE", "FALSE", []string{"RecoveredOK", "Consistent"})} {
		if res, err := tlc.Run(tlc.Options{Module: "MC_BtDisk", Cfg: cf.Text(), Workers: 4, Timeout: 10 * time.Minute}); err == nil {
			c.Extra(name, res.InvViolated)
		}
	}
	// the known finding, in the model: purge first, schema file afterwards is not atomic under a kill
	atomicDrop = "FALSE"
	if res, err := tlc.Run(tlc.Options{Module: "MC_BtDisk", Cfg: mk("TRUE", "TRUE", []string{"RecoveredOK", "Consistent"}).Text(), Workers: 4, Timeout: 10 * time.Minute}); err == nil {
		c.Extra("model_family_drop_purge_before_schema_violates", res.InvViolated)
	}
	atomicDrop = "TRUE"
	n := 120
	if !c.Quick() {
		n = 5000
	}
	plans := make([]crashPlan, n)
	for i := range plans {
		plans[i] = genCrashProgram(r)
	}
	// every instrumented point at least once, in a fixed small program
	base := []bt.Op{createOp(btTable), {Ev: "MutateRow", T: btTable, K: j.S("a"), Muts: []bt.Mut{{M: "set", F: j.S("f"), Q: j.S("q"), Ts: 1000, V: j.S("x")}, {M: "set", F: j.S("g"), Q: j.S("q"), Ts: 1000, V: j.S("x")}}, Now: 5000}}
	tail := []bt.Op{{Ev: "MutateRow", T: btTable, K: j.S("b"), Muts: []bt.Mut{{M: "set", F: j.S("f"), Q: j.S("q"), Ts: 1000, V: j.S("y")}}, Now: 5000}}
	for _, pt := range []string{"SetTableMeta.afterMkdir", "SetTableMeta.afterTmpWrite", "SetTableMeta.afterRename", "Create.afterMeta", "newDiskDb.afterRemoveAll", "newDiskDb.afterOpen", "Clear.afterClose"} {
		for _, victim := range []bt.Op{createOp(btTable2), {Ev: "ModifyFamilies", T: btTable, Mods: []bt.Mod{{K: "create", F: j.S("h"), Rule: bt.Rule{T: "maxver", N: 2}}}}, {Ev: "DropRowRange", T: btTable, All: true},
			{Ev: "ModifyFamilies", T: btTable, Mods: []bt.Mod{{K: "drop", F: j.S("g"), Rule: bt.Rule{T: "none"}}}}} {
			ops := append(append(append([]bt.Op{}, base...), victim), tail...)
			plans = append(plans, crashPlan{Ops: ops, ArmAt: map[int]string{3: pt + "#1"}, KillAt: map[int]string{len(ops): "boundary"}})
		}
	}
	// delete / re-create across restarts
	plans = append(plans, crashPlan{Ops: []bt.Op{createOp(btTable), base[1], {Ev: "DeleteTable", T: btTable}, createOp(btTable), tail[0]}, KillAt: map[int]string{3: "boundary", 4: "boundary", 5: "boundary"}, ArmAt: map[int]string{}})
	plans = append(plans, crashPlan{Ops: []bt.Op{createOp(btTable), base[1], {Ev: "DeleteTable", T: btTable}, createOp(btTable)}, ArmAt: map[int]string{4: "Create.afterMeta#1"}, KillAt: map[int]string{}})
	// a kill between the two removals of a table delete leaves its directory behind; a kill inside the re-creation
	// of that table must still not show the old rows
	for _, pt := range []string{"Create.afterMeta#1", "SetTableMeta.afterRename#1", "SetTableMeta.afterTmpWrite#1", "newDiskDb.afterRemoveAll#1"} {
		plans = append(plans, crashPlan{Ops: []bt.Op{createOp(btTable), base[1], {Ev: "DeleteTable", T: btTable}, createOp(btTable), tail[0]},
			ArmAt: map[int]string{3: "Delete.afterMetaRemove#1", 4: pt}, KillAt: map[int]string{5: "boundary"}})
	}
	nPar, rounds := 4, 6
	if !c.Quick() {
		nPar, rounds = 40, 12
	}
	for i := 0; i < nPar; i++ {
		plans = append(plans, crashPlan{Parallel: rounds})
	}
	c.Extra("concurrent_schema_change_programs", nPar)
	traces := make([][]bt.Op, len(plans))
	var wg sync.WaitGroup
	sem := make(chan struct{}, 12)
	for i := range plans {
		wg.Add(1)
		go func(i int) {
			defer wg.Done()
			sem <- struct{}{}
			defer func() { <-sem }()
			traces[i] = runCrashProgram(i+1, plans[i])
		}(i)
	}
	wg.Wait()
	fmt.Fprintf(os.Stderr, "[C08] %d programs executed at %.1fs\n", len(plans), time.Since(c.Start).Seconds())
	nkills, ninside := 0, 0
	var all []byte
	for i, tr := range traces {
		c.AddEval(1)
		kills := 0
		for _, e := range tr {
			if e.Ev == "Crash" {
				kills++
				if e.HasInflight {
					ninside++
				}
			}
		}
		nkills += kills
		if kills > 0 {
			c.Nontrivial(describe(plans[i].Ops) + fmt.Sprint(plans[i].KillAt, plans[i].ArmAt))
		}
		all = append(all, encodeTrace(tr)...)
	}
	c.Extra("kill_restart_cycles", nkills)
	c.Extra("kills_inside_a_request", ninside)
	for _, si := range []int{0, len(plans) - 1} { // a random sequential program with its kill plan, and a concurrent one
		if si < 0 || si >= len(traces) {
			continue
		}
		var pts []string
		for _, e := range traces[si] {
			if e.Ev == "Crash" {
				pts = append(pts, e.Point)
			}
		}
		smp := map[string]interface{}{"source": "program with its kill plan", "program": stripProg(plans[si].Ops), "arm_at": plans[si].ArmAt, "kill_after": plans[si].KillAt, "kills_executed": pts}
		if plans[si].Parallel > 0 {
			smp = map[string]interface{}{"source": "concurrent schema changes on six tables, then a kill, per round", "rounds": plans[si].Parallel, "recorded_events": len(traces[si]), "kills_executed": pts}
		}
		c.Sample(smp)
	}
	rj, _, err := validateBt(all)
	if err != nil {
		c.Inconclusive("C08 trace validation: %v", err)
		return
	}
	c.AddTraces(int64(len(traces)), 0)
	fmt.Fprintf(os.Stderr, "[C08] validated at %.1fs (%d rejected)\n", time.Since(c.Start).Seconds(), len(rj))
	for n, r := range rj {
		if n >= 12 {
			fmt.Printf("  (%d further rejected programs not individually confirmed)\n", len(rj)-12)
			break
		}
		plan := plans[r.Tr-1]
		again := 0
		var lastTr []bt.Op
		var lastRjs []btReject
		for t := 0; t < 2; t++ {
			tr := runCrashProgram(1, plan)
			if x, _, err := validateBt(encodeTrace(tr)); err == nil && len(x) > 0 {
				again++
				lastTr, lastRjs = tr, x
			}
		}
		if again == 0 {
			pt := ""
			for _, e := range traces[r.Tr-1] {
				if e.I == r.I && e.Ev == r.Ev {
					pt = e.Point
				}
			}
			c.Unreproduced("C08: program %d was rejected at step %d (%s %s: %s) but two re-executions were accepted", r.Tr, r.I, r.Ev, pt, r.Why)
			continue
		}
		// every rejection of the re-executed program is reported (a known finding early in a program must not hide
		// a different violation later in it)
		for _, lastRj := range lastRjs {
			var ev *bt.Op
			for k := range lastTr {
				if lastTr[k].I == lastRj.I && lastTr[k].Ev == lastRj.Ev {
					ev = &lastTr[k]
				}
			}
			id := ""
			what := fmt.Sprintf("C08: step %d (%s: %s) of the recorded program is not a behaviour of the specification", lastRj.I, lastRj.Ev, lastRj.Why)
			if ev != nil && ev.Ev == "Crash" {
				what = fmt.Sprintf("C08: after the kill at step %d (%s) the restarted emulator does not serve the acknowledged state (%s)", lastRj.I, ev.Point, lastRj.Why)
				id = classifyCrash(lastRj, ev)
			}
			c.Violation(id, what, map[string]interface{}{"kind": "bt-crash", "program": stripProg(plan.Ops), "arm_at": plan.ArmAt, "kill_after": plan.KillAt, "parallel_rounds": plan.Parallel, "failing_step": lastRj.I, "observed_event": ev})
		}
	}
	c.Assume("TLC and the Json module are trusted; the emulator is a real child process (bin/cbtemulator, built from the working tree with -tags verif) killed with SIGKILL; power loss (unsynced writes) is not modelled: the property speaks of stopping and killing the process")
	c.Assume("states in the middle of os.RemoveAll are not produced (hooks cannot reach inside it)")
}

// classifyCrash names the known finding a rejected recovery belongs to, if any: the trace specification itself says
// when the recovered state is exactly the one a listed deviation describes (BtTrace, Crash event).
func classifyCrash(rj btReject, ev *bt.Op) string {
	if rj.Why == "Dev_FamilyDropTornByCrash" && ev.HasInflight && ev.Inflight != nil && ev.Inflight.Ev == "ModifyFamilies" {
		return "Dev_FamilyDropTornByCrash"
	}
	return ""
}

func init() {
	replayers["bt-crash"] = func(raw json.RawMessage) (bool, string) {
		var cs struct {
			Program []bt.Op        `json:"program"`
			ArmAt   map[int]string `json:"arm_at"`
			KillAt  map[int]string `json:"kill_after"`
			Par     int            `json:"parallel_rounds"`
		}
		if err := json.Unmarshal(raw, &cs); err != nil {
			return false, "inconclusive: " + err.Error()
		}
		plan := crashPlan{Ops: cs.Program, KillAt: cs.KillAt, ArmAt: cs.ArmAt, Parallel: cs.Par}
		msg := "accepted: three re-executions of the program with its kill plan are behaviours of the specification"
		for t := 0; t < 3; t++ {
			tr := runCrashProgram(1, plan)
			rj, _, err := validateBt(encodeTrace(tr))
			if err != nil {
				return false, "inconclusive: " + err.Error()
			}
			if len(rj) > 0 {
				var ev *bt.Op
				for k := range tr {
					if tr[k].I == rj[0].I && tr[k].Ev == rj[0].Ev {
						ev = &tr[k]
					}
				}
				b, _ := json.Marshal(ev)
				return true, fmt.Sprintf("rejected at step %d (%s, %s): %.1500s", rj[0].I, rj[0].Ev, rj[0].Why, b)
			}
		}
		return false, msg
	}
}
