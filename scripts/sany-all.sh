#!/bin/bash
# Parse every TLA+ module of /verif/spec (flattened into a scratch directory, as the harness does at run time).
set -u
D=$(mktemp -d "${TMPDIR:-/tmp}/sany.XXXXXX"); trap 'rm -rf "$D"' EXIT
find /verif/spec -name '*.tla' -exec cp {} "$D"/ \;
cd "$D"; rc=0
for f in ${@:-*.tla}; do
  out=$(timeout 120 tla-sany "$f" 2>&1)
  if echo "$out" | grep -qE "\*\*\* Errors|Fatal errors|Could not|Parsing or semantic analysis failed|Lexical error|Encountered"; then
    echo "== $f"; echo "$out" | grep -vE "^(Parsing|Semantic processing|Linting)" | head -30; rc=1
  fi
done
exit $rc
