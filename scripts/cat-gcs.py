#!/usr/bin/env python3
import json,sys,glob,collections
def b(x): return bytes(x).decode('latin1') if isinstance(x,list) else x
cnt=collections.Counter(); first={}
for p in sorted(glob.glob('/verif/replays/%s-*.json'%sys.argv[1])):
    d=json.load(open(p)); c=d['case']; ev=c.get('observed_event') or {}
    r=ev.get('resp',{})
    key=(c.get('store'),ev.get('ev'),c.get('why'),ev.get('proto'),'code=%s'%r.get('code'), 'gzip' if ev.get('gzip') else '', (r.get('raw') or '')[:90].replace('\n',' '))
    cnt[key]+=1; first.setdefault(key,p)
for k,v in cnt.most_common(): print(v,*k, first[k].split('/')[-1])
