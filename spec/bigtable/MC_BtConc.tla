---- MODULE MC_BtConc ----
EXTENDS BtConc, Json
CONSTANTS KindName    \* a name selecting the process mix (see Mixes)
\* process mixes (process -> kind) and the rows they work on
Mixes == [ incr2  |-> [procs |-> {1, 2}, kind |-> <<"incr", "incr">>, row |-> <<1, 1>>, keys |-> {1}],
           incr3  |-> [procs |-> {1, 2, 3}, kind |-> <<"incr", "incr", "incr">>, row |-> <<1, 1, 1>>, keys |-> {1}],
           cas2   |-> [procs |-> {1, 2, 3}, kind |-> <<"cas", "cas", "incr">>, row |-> <<1, 1, 1>>, keys |-> {1}],
           torn   |-> [procs |-> {1, 2, 3}, kind |-> <<"mut2", "read", "mut2">>, row |-> <<1, 1, 1>>, keys |-> {1}],
           mixed  |-> [procs |-> {1, 2, 3}, kind |-> <<"incr", "mut2", "cas">>, row |-> <<1, 2, 1>>, keys |-> {1, 2}],
           scan   |-> [procs |-> {1, 2, 3}, kind |-> <<"scan", "mut2", "del">>, row |-> <<1, 2, 3>>, keys |-> {1, 2, 3}],
           scan2  |-> [procs |-> {1, 2, 3}, kind |-> <<"scan", "incr", "mut2">>, row |-> <<1, 3, 1>>, keys |-> {1, 2, 3}],
           gc     |-> [procs |-> {1, 2, 3}, kind |-> <<"gc", "incr", "mut2">>, row |-> <<1, 3, 2>>, keys |-> {1, 2, 3}],
           gcdel  |-> [procs |-> {1, 2, 3}, kind |-> <<"gc", "del", "incr">>, row |-> <<1, 3, 1>>, keys |-> {1, 2, 3}] ]
Mix == Mixes[KindName]
MProcs == Mix.procs
MKind == Mix.kind
MKeys == Mix.keys
MRowOf == Mix.row

====
