SPECIFICATION TSpec
CONSTANTS
  Procs = {"p1", "p2", "p3"}
  Keys = {"k1", "k2"}
  Rounds = 1000
  CanCancel = TRUE
  BadUnlock = TRUE
  Order = "log"
CONSTRAINT Mark
INVARIANT TraceInvs
POSTCONDITION Report
CHECK_DEADLOCK FALSE
