package main

import (
	"fmt"
	"os"

	"verif/harness/internal/gcs"
	"verif/harness/internal/j"
	"verif/harness/internal/tlc"
)

func main() {
	store := "mem"
	if len(os.Args) > 1 {
		store = os.Args[1]
	}
	dir, _ := os.MkdirTemp("", "gcs-")
	defer os.RemoveAll(dir)
	s, err := gcs.Start(store, dir)
	if err != nil {
		panic(err)
	}
	defer s.Close()
	B := j.S("bkt")
	nc := gcs.NoConds()
	cur := gcs.NoConds()
	cur.Gm = gcs.Cond{K: "val", Sym: "cur"}
	oth := gcs.NoConds()
	oth.Gnm = gcs.Cond{K: "val", Sym: "cur"}
	prog := []gcs.Op{
		{Ev: "CreateBucket", B: B},
		{Ev: "Upload", B: B, N: j.S("a/b.txt"), Proto: "media", Content: j.S("hello"), Decl: "none", Attrs: []gcs.KV{{K: "ct", V: j.S("text/plain")}}, Conds: nc},
		{Ev: "Upload", B: B, N: j.S("a/b.txt"), Proto: "multipart", Content: j.S("world!"), Decl: "ok", Attrs: []gcs.KV{{K: "ct", V: j.S("text/x")}, {K: "cc", V: j.S("no-cache")}}, Meta: []gcs.KVB{{K: j.S("k"), V: j.S("v")}}, Conds: cur},
		{Ev: "Upload", B: B, N: j.S("a/b.txt"), Proto: "multipart", Content: j.S("nope"), Decl: "wrong", Conds: nc},
		{Ev: "Upload", B: B, N: j.S("a/b.txt"), Proto: "media", Content: j.S("nope"), Decl: "none", Conds: oth},
		{Ev: "GetMedia", B: B, N: j.S("a/b.txt"), Form: "public"},
		{Ev: "GetMeta", B: B, N: j.S("a/b.txt")},
		{Ev: "Patch", B: B, N: j.S("a/b.txt"), Attrs: []gcs.KV{{K: "cd", V: j.S("inline")}}, Meta: []gcs.KVB{{K: j.S("k2"), V: j.S("w")}}, Conds: nc},
		{Ev: "ResumableStart", B: B, N: j.S("r"), Decl: "none", Conds: nc},
		{Ev: "ResumablePut", Ref: 9, Lo: 0, Total: -1, Data: j.S("abc")},
		{Ev: "ResumablePut", Ref: 9, Lo: -1, Total: -1},
		{Ev: "ResumablePut", Ref: 9, Lo: 2, Total: 5, Data: j.S("cde"), Md5full: j.S("")},
		{Ev: "Compose", B: B, N: j.S("c"), Srcs: []gcs.Src{{N: j.S("r"), Gm: gcs.Unset()}, {N: j.S("a/b.txt"), Gm: gcs.Unset()}, {N: j.S("r"), Gm: gcs.Unset()}}, Conds: nc},
		{Ev: "Copy", B: B, N: j.S("c"), Db: j.S("bkt2"), Dn: j.S("copy of c")},
		{Ev: "List", B: B, Prefix: j.S(""), Delim: j.S("/"), MaxResults: 2},
		{Ev: "Delete", B: B, N: j.S("r"), Conds: nc},
		{Ev: "Delete", B: B, N: j.S("r"), Conds: nc},
		{Ev: "DeleteBucket", B: j.S("bkt2")},
	}
	evs := s.Run(1, prog)
	gcs.RankGens(evs)
	var buf []byte
	for _, e := range evs {
		buf = append(buf, j.Line(e)...)
	}
	os.WriteFile("/tmp/smoke2.ndjson", buf, 0644)
	for _, e := range evs[1:] {
		fmt.Println(e.I, e.Ev, e.Resp.Code, e.Resp.Raw)
	}
	res, err := tlc.Run(tlc.Options{Module: "GcsTrace", Cfg: "GcsTrace.cfg", Files: map[string][]byte{"trace.ndjson": buf}})
	fmt.Println(err, res.ExitCode, res.Generated)
	if res.ExitCode != 0 {
		fmt.Println(res.Tail(30))
	}
	for _, p := range res.Printed {
		fmt.Println("PRINTED", string(p[1]))
	}
}
