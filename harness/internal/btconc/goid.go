package btconc

import (
	"bytes"
	"runtime"
	"strconv"
)

func goid() int64 {
	var buf [64]byte
	n := runtime.Stack(buf[:], false)
	b := buf[len("goroutine "):n]
	i := bytes.IndexByte(b, ' ')
	id, _ := strconv.ParseInt(string(b[:i]), 10, 64)
	return id
}
