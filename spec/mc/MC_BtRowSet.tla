----------------------------- MODULE MC_BtRowSet ----------------------------
(***************************************************************************)
(* C03: for EVERY RowSet of up to two ranges plus up to one key, with      *)
(* bounds drawn from the adversarial keys a, a\0, a\0\0, ab, b, \0, \xff   *)
(* and each bound unset / open / closed, the implementation-shaped scan    *)
(* plan (half-open encoding by appending a zero byte, sort, merge, scan    *)
(* each merged range once) visits exactly the denotation, in key order,    *)
(* each row once.  Each RowSet is one initial state; the invariant is the  *)
(* refinement statement.  With DumpEdges the RowSets are printed (sampled)  *)
(* for the harness to send to the real emulator.                           *)
(***************************************************************************)
EXTENDS BtRowSet, Json, TLC

CONSTANTS MaxRanges, DumpEdges, SampleK

VARIABLE rs

AdvKeys == {<<97>>, <<97, 0>>, <<97, 0, 0>>, <<97, 98>>, <<98>>, <<0>>, <<255>>}
Bounds == {[kind |-> "none", key |-> <<>>]} \cup {[kind |-> k, key |-> x] : k \in {"open", "closed"}, x \in AdvKeys}
Ranges == {[sk |-> s.kind, s |-> s.key, ek |-> e.kind, e |-> e.key] : s \in Bounds, e \in Bounds}
KeyLists == {<<>>} \cup {<<k>> : k \in AdvKeys}
RangeLists == {<<>>} \cup {<<r>> : r \in Ranges} \cup (IF MaxRanges >= 2 THEN {<<r1, r2>> : r1 \in Ranges, r2 \in Ranges} ELSE {})

Init == rs \in {[keys |-> ks, ranges |-> rl] : ks \in KeyLists, rl \in RangeLists}
Next == UNCHANGED rs
Spec == Init /\ [][Next]_rs

\* stored-key sets: all seven keys, and two subsets that leave gaps at the prefix-related keys
Stored == {AdvKeys, {<<97>>, <<97, 0, 0>>, <<98>>}, {<<97, 0>>, <<255>>}}
InvPlan == \A K \in Stored : PlanCorrect(rs, K)
\* an inverted range is invalid, an empty-but-not-inverted one (open ends at one key) is not
InvInvalid == Invalid(rs) => \E i \in 1..Len(rs.ranges) : rs.ranges[i].s # rs.ranges[i].e

Constr == (DumpEdges /\ RandomElement(1..SampleK) = 1) => PrintT(<<"RS", ToJson(rs)>>)
=============================================================================
