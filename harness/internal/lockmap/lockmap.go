// Package lockmap executes schedules (sequences of "which goroutine takes its next internal step") on the real
// gcsutil.TransientLockMap through its verification hooks, which double as scheduler gates, and records the
// per-goroutine event streams that spec/lockmap/LockMapTrace.tla validates.
package lockmap

import (
	"bytes"
	"context"
	"fmt"
	"os"
	"runtime"
	"sort"
	"strconv"
	"sync"
	"sync/atomic"
	"time"

	"github.com/fullstorydev/emulators/storage/gcsutil"
)

// Step is one entry of a schedule: a = lock|unlock|badunlock (start that call), step (take the next internal
// step), cancel (end the context of the current Lock call).
type Step struct {
	P string `json:"p"`
	A string `json:"a"`
	K string `json:"k"`
}

type Snap struct {
	K    string `json:"k"`
	Ref  int64  `json:"ref"`
	Full bool   `json:"full"`
}

type Event struct {
	Pt   string `json:"pt"`
	K    string `json:"k"`
	Seq  int    `json:"seq"`
	Snap []Snap `json:"snap"`
	Res  string `json:"res"`
	G    int    `json:"g"` // position in the harness's own log (a hint for the order; only the per-goroutine order is certain)
}

type Run struct {
	ID    int                `json:"id"`
	Procs map[string][]Event `json:"procs"`
	Final []Snap             `json:"final"`
	// diagnostics (not read by the specification)
	Blocked  []string `json:"blocked,omitempty"` // "p@step": released but made no progress within the wait (it is blocked inside a primitive)
	Stuck    []string `json:"stuck,omitempty"`   // goroutines still blocked at the end of the run
	Schedule []Step   `json:"-"`
}

// parking hooks: the goroutine waits there for the scheduler; the other hooks only log
var parking = map[string]bool{"Lock.start": true, "Lock.inMu": true, "Lock.afterMu": true, "cl.ctxChecked": true,
	"ret.start": true, "ret.inMu": true, "Unlock.start": true, "Unlock.inMu": true, "Unlock.afterMu": true}
var underMu = map[string]bool{"Lock.inMu": true, "ret.inMu": true, "Unlock.inMu": true}

type proc struct {
	name      string
	gate      chan struct{}
	arrived   chan string // "call" (at the call gate), a parking hook name, or "exit"
	calls     chan Step
	cancel    atomic.Pointer[context.CancelFunc] // set by the goroutine for the duration of its Lock call; whoever cancels swaps it out
	key       string
	parked    bool   // waiting at a gate (call gate or parking hook)
	atGate    bool   // ... and that gate is the call gate (between calls)
	holding   string // the key its last Lock call acquired and it has not unlocked yet
	at        string // the hook it is parked at ("call": its call gate)
	unlocking string // the key of the Unlock call it is inside of (it still holds the key until that call's receive)
}

type runner struct {
	lm     *gcsutil.TransientLockMap
	mu     sync.Mutex
	seq    int
	g      int
	events map[string][]Event
	procs  map[string]*proc
}

var (
	registry sync.Map // goroutine id -> *binding
	hookOnce sync.Once
)

type binding struct {
	r *runner
	p *proc
}

func goid() int64 {
	var buf [64]byte
	n := runtime.Stack(buf[:], false)
	// "goroutine 123 [running]:"
	b := buf[len("goroutine "):n]
	i := bytes.IndexByte(b, ' ')
	id, _ := strconv.ParseInt(string(b[:i]), 10, 64)
	return id
}

func installHook() {
	hookOnce.Do(func() {
		gcsutil.VerifHook = func(point, key string) {
			v, ok := registry.Load(goid())
			if !ok {
				return
			}
			b := v.(*binding)
			b.r.at(b.p, point, key)
		}
	})
}

func snapshot(lm *gcsutil.TransientLockMap, lock bool) []Snap {
	m := lm.VerifSnapshot(lock)
	out := make([]Snap, 0, len(m))
	for k, v := range m {
		out = append(out, Snap{K: k, Ref: v.Refcount, Full: v.Full})
	}
	sort.Slice(out, func(a, b int) bool { return out[a].K < out[b].K })
	return out
}

func (r *runner) log(p *proc, e Event) {
	r.mu.Lock()
	r.g++
	e.G = r.g
	if underMu[e.Pt] {
		r.seq++
		e.Seq = r.seq
		e.Snap = snapshot(r.lm, false) // we are inside the map mutex
	}
	r.events[p.name] = append(r.events[p.name], e)
	r.mu.Unlock()
}

func (r *runner) at(p *proc, point, key string) {
	if key == "" {
		key = p.key
	}
	r.log(p, Event{Pt: point, K: key})
	if parking[point] {
		p.arrived <- point
		<-p.gate
	}
}

func (r *runner) body(p *proc) {
	registry.Store(goid(), &binding{r, p})
	defer registry.Delete(goid())
	for {
		p.arrived <- "call"
		<-p.gate
		st, ok := <-p.calls
		if !ok {
			p.arrived <- "exit"
			return
		}
		p.key = st.K
		func() {
			defer func() {
				if rec := recover(); rec != nil {
					r.log(p, Event{Pt: "panic", K: st.K, Res: fmt.Sprint(rec)})
				}
			}()
			switch st.A {
			case "lock":
				ctx, cancel := context.WithCancel(context.Background())
				defer cancel()
				p.cancel.Store(&cancel)
				r.log(p, Event{Pt: "call.Lock", K: st.K})
				ok := r.lm.Lock(ctx, st.K)
				p.cancel.Store(nil) // the call is over: nothing left to cancel
				if ok {
					p.holding = st.K
				}
				r.log(p, Event{Pt: "ret", K: st.K, Res: strconv.FormatBool(ok)})
			case "unlock", "badunlock":
				r.log(p, Event{Pt: "call.Unlock", K: st.K})
				if st.A == "unlock" {
					p.unlocking = st.K
				}
				p.holding = ""
				defer func() { p.unlocking = "" }()
				r.lm.Unlock(st.K)
				r.log(p, Event{Pt: "ret", K: st.K, Res: "unlocked"})
			}
		}()
	}
}

// Execute runs one schedule on a fresh lock map. wait is how long a released goroutine is given to reach its next
// parking point before it is considered blocked inside a primitive (it may still arrive later, on its own).
// probe > 0 additionally releases, after every n-th step, a goroutine the schedule did not ask for (an attempt to
// take a step the specification may not allow at that point).
func Execute(id int, sched []Step, procNames []string, wait time.Duration, probeEvery int) *Run {
	installHook()
	r := &runner{lm: gcsutil.NewTransientLockMap(), events: map[string][]Event{}, procs: map[string]*proc{}}
	run := &Run{ID: id, Procs: map[string][]Event{}, Schedule: sched}
	for _, n := range procNames {
		p := &proc{name: n, gate: make(chan struct{}), arrived: make(chan string, 4), calls: make(chan Step, 1)}
		r.procs[n] = p
		r.events[n] = nil
		go r.body(p)
	}
	// wait until every goroutine is at its call gate
	for _, n := range procNames {
		<-r.procs[n].arrived
		r.procs[n].parked, r.procs[n].atGate = true, true
	}
	// drain arrivals of goroutines that were blocked and got unblocked by somebody else's step
	drain := func() {
		for _, p := range r.procs {
			for {
				select {
				case pt := <-p.arrived:
					if pt != "exit" {
						p.parked = true
						p.atGate = pt == "call"
						p.at = pt
					}
					continue
				default:
				}
				break
			}
		}
	}
	dbg := os.Getenv("VERIF_DEBUG") != ""
	release := func(p *proc, what string) bool {
		if !p.parked {
			return false
		}
		if dbg {
			fmt.Fprintf(os.Stderr, "release %s (%s) from %q\n", p.name, what, p.at)
		}
		p.parked = false
		p.gate <- struct{}{}
		select {
		case pt := <-p.arrived:
			if dbg {
				fmt.Fprintf(os.Stderr, "  %s arrived at %q\n", p.name, pt)
			}
			p.parked = true
			p.atGate = pt == "call"
			p.at = pt
			return true
		case <-time.After(wait):
			run.Blocked = append(run.Blocked, p.name+"@"+what)
			return false
		}
	}
	for i, st := range sched {
		p := r.procs[st.P]
		if p == nil {
			continue
		}
		drain()
		switch st.A {
		case "lock", "unlock", "badunlock":
			if p.parked && p.atGate {
				// the driver decides its next call from what its last call returned: a goroutine that holds a key
				// (the real select may acquire where the generating behaviour gave up) unlocks it first
				if p.holding != "" && st.A != "unlock" {
					st = Step{P: st.P, A: "unlock", K: p.holding}
				} else if p.holding == "" && st.A == "unlock" {
					break
				}
				if st.A == "badunlock" {
					// a rogue unlock is about a key that is NOT held: it is issued only while every other goroutine is
					// parked (at its call gate or at a hook before the acquisition, so none can acquire meanwhile) and
					// none holds the key or is inside the Unlock call that gives it back. Goroutines that have registered
					// for the key but not acquired it yet may be there: the unlock must panic and leave their
					// registration alone.
					quiet := true
					for _, q := range r.procs {
						// (a goroutine parked inside the map mutex would block the rogue call half-way)
						if q != p && (!q.parked || q.holding == st.K || q.unlocking == st.K || underMu[q.at]) {
							quiet = false
						}
					}
					if !quiet {
						break
					}
					if os.Getenv("VERIF_DEBUG") != "" {
						for _, q := range r.procs {
							fmt.Fprintf(os.Stderr, "rogue %s %s: %s parked=%v at=%q atGate=%v holding=%q\n", p.name, st.K, q.name, q.parked, q.at, q.atGate, q.holding)
						}
					}
				}
				p.calls <- st
				release(p, st.A)
				if st.A == "badunlock" {
					// ... and it runs to its end before anybody else moves
					for n := 0; n < 20 && p.parked && !p.atGate; n++ {
						release(p, "badunlock")
					}
				}
			}
		case "step":
			if !p.atGate {
				release(p, "step")
			}
		case "cancel":
			if cf := p.cancel.Load(); cf != nil && !p.atGate {
				p.cancel.Store(nil)
				r.log(p, Event{Pt: "cancel", K: p.key})
				(*cf)()
				// a goroutine blocked in its select wakes up on its own; give it a moment to reach its next point
				if !p.parked {
					select {
					case pt := <-p.arrived:
						p.parked = true
						p.atGate = pt == "call"
						p.at = pt
					case <-time.After(wait):
					}
				}
			}
		}
		if probeEvery > 0 && (i+1)%probeEvery == 0 {
			for _, n := range procNames {
				if q := r.procs[n]; q != p && q.parked && !q.atGate { // inside a call: let it try its next step
					release(q, "probe")
					break
				}
			}
		}
	}
	// finish: let every goroutine run to the end of its current call; goroutines that stay blocked (waiting for a
	// key whose holder is done) get their context ended
	deadline := time.Now().Add(3 * time.Second)
	for time.Now().Before(deadline) {
		drain()
		progressed, allAtGate := false, true
		for _, n := range procNames {
			p := r.procs[n]
			if p.parked && p.atGate {
				continue
			}
			allAtGate = false
			if p.parked && release(p, "finish") {
				progressed = true
			}
		}
		if allAtGate {
			break
		}
		if !progressed {
			drain()
			for _, n := range procNames {
				p := r.procs[n]
				if cf := p.cancel.Load(); !p.parked && cf != nil {
					p.cancel.Store(nil)
					r.log(p, Event{Pt: "cancel", K: p.key})
					(*cf)()
					select {
					case pt := <-p.arrived:
						p.parked, p.atGate, p.at = true, pt == "call", pt
					case <-time.After(wait):
					}
				}
			}
		}
	}
	drain()
	for _, n := range procNames {
		p := r.procs[n]
		if p.parked && p.atGate {
			close(p.calls)
			p.parked = false
			p.gate <- struct{}{}
		} else {
			run.Stuck = append(run.Stuck, n)
		}
	}
	time.Sleep(200 * time.Microsecond)
	r.mu.Lock()
	for n, evs := range r.events {
		run.Procs[n] = append([]Event(nil), evs...)
	}
	r.mu.Unlock()
	if len(run.Stuck) == 0 {
		run.Final = snapshot(r.lm, true)
	} else {
		run.Final = snapshot(r.lm, false)
	}
	return run
}
