------------------------------- MODULE BtRow --------------------------------
(***************************************************************************)
(* The Bigtable row data model and the semantics of mutations and          *)
(* read-modify-write rules on ONE row (properties C01, C06, C12, C13).     *)
(*                                                                         *)
(* A row is a function  <<family, qualifier>> -> cells  where cells is a   *)
(* function  timestamp -> value  with a NON-EMPTY domain (a column without *)
(* cells does not exist; a row with no column does not exist: NoRow).      *)
(* Families/qualifiers/values are byte strings, timestamps Num64.          *)
(*                                                                         *)
(* Every operator that decides an outcome returns a SET of outcomes        *)
(* [ok |-> BOOLEAN, row |-> row]; the set has more than one member only    *)
(* where the property statement leaves the outcome open (DESIGN.md 5.4).   *)
(***************************************************************************)
EXTENDS Bytes, Num64, Integers, Sequences, FiniteSets, TLC

NoRow == <<>>                       \* the function with empty domain

Cols(row)          == DOMAIN row
FamsOf(row)        == {c[1] : c \in DOMAIN row}
CellsOf(row, c)    == IF c \in DOMAIN row THEN row[c] ELSE <<>>

ValidTs(t) == ~IsNeg(t) /\ LE64(t, MaxValidTs) /\ IsMilli(t)

\* replace / insert the cell at timestamp t
\* (TLCEval forces the function to be built now: TLC would otherwise nest lazy function values request after request)
UpdCells(cells, t, v) == TLCEval([x \in (DOMAIN cells) \cup {t} |-> IF x = t THEN v ELSE cells[x]])

PutCell(row, c, t, v) ==
  TLCEval([x \in (DOMAIN row) \cup {c} |-> IF x = c THEN UpdCells(CellsOf(row, c), t, v) ELSE row[x]])

\* keep only the cells of column c whose timestamp satisfies Keep(_); drop the column if none is left
RestrictCol(row, c, Keep(_)) ==
  IF c \notin DOMAIN row THEN row
  ELSE LET ks == {t \in DOMAIN row[c] : Keep(t)} IN
       IF ks = {} THEN TLCEval([x \in (DOMAIN row) \ {c} |-> row[x]])
       ELSE TLCEval([x \in DOMAIN row |-> IF x = c THEN [t \in ks |-> row[c][t]] ELSE row[x]])

DropFamily(row, f) == TLCEval([x \in {c \in DOMAIN row : c[1] # f} |-> row[x]])

\* greatest timestamp of a non-empty cells function
Newest(cells) == CHOOSE t \in DOMAIN cells : \A u \in DOMAIN cells : GE64(t, u)

Ok(r)  == [ok |-> TRUE,  row |-> r]
Err(r) == [ok |-> FALSE, row |-> r]

(***************************************************************************)
(* One mutation.  m.m \in {"set","delcol","delfam","delrow","none"}.       *)
(*  set:    f, q, ts, v      (ts = -1 means server time)                   *)
(*  delcol: f, q, r \in {0,1} (1: a time range is given), s, e             *)
(*  delfam: f                                                              *)
(* fams = the set of family names in the table's schema; now = clock.      *)
(***************************************************************************)
ApplyMut(row, fams, m, now) ==
  CASE m.m = "set" ->
         LET t1 == IF m.ts = ServerTimeTs THEN TruncMilli(now) ELSE m.ts IN
         IF m.f \notin fams \/ ~ValidTs(t1) THEN {Err(row)}
         ELSE {Ok(PutCell(row, <<m.f, m.q>>, t1, m.v))}
    [] m.m = "delcol" ->
         IF m.f \notin fams THEN {Err(row)}
         ELSE IF m.r = 0 THEN {Ok(RestrictCol(row, <<m.f, m.q>>, LAMBDA t : FALSE))}
         ELSE IF ~ValidTs(m.s) \/ (~IsZero64(m.e) /\ ~ValidTs(m.e)) THEN {Err(row)}
         ELSE IF ~IsZero64(m.e) /\ LT64(m.e, m.s) THEN {Err(row)}            \* inverted
         ELSE IF ~IsZero64(m.e) /\ m.e = m.s THEN {Err(row), Ok(row)}        \* empty range: unspecified
         ELSE {Ok(RestrictCol(row, <<m.f, m.q>>,
                    LAMBDA t : ~(GE64(t, m.s) /\ (IsZero64(m.e) \/ LT64(t, m.e)))))}
    [] m.m = "delfam" ->
         IF m.f \in fams THEN {Ok(DropFamily(row, m.f))}
         ELSE {Err(row), Ok(row)}                                            \* unknown family: error or no-op
    [] m.m = "delrow" -> {Ok(NoRow)}
    [] OTHER -> {Err(row)}                                                   \* unset / unknown mutation kind

\* a list of mutations, in request order, on a private copy; the first error fails the whole list
RECURSIVE ApplyList(_, _, _, _, _)
ApplyList(orig, cur, fams, muts, now) ==
  IF muts = <<>> THEN {Ok(cur)}
  ELSE UNION { IF o.ok THEN ApplyList(orig, o.row, fams, Tail(muts), now) ELSE {Err(orig)}
               : o \in ApplyMut(cur, fams, Head(muts), now) }

\* the entry point: outcome set of applying muts atomically to row
Apply(row, fams, muts, now) ==
  IF muts = <<>> THEN {Ok(row), Err(row)}           \* empty list: any status, nothing changes
  ELSE ApplyList(row, row, fams, muts, now)

(***************************************************************************)
(* Read-modify-write rules (C13).  rule.k \in {"append","incr","none"};    *)
(*  append: f, q, v      incr: f, q, amt (8 bytes, two's complement)       *)
(***************************************************************************)
\* 8-byte big-endian addition modulo 2^64 (x, y sequences of 8 bytes)
RECURSIVE AddBytesFrom(_, _, _, _)
AddBytesFrom(x, y, i, carry) ==
  IF i = 0 THEN <<>>
  ELSE LET s == x[i] + y[i] + carry IN
       Append(AddBytesFrom(x, y, i - 1, s \div 256), s % 256)
Add8(x, y) == AddBytesFrom(x, y, 8, 0)
Zero8 == <<0, 0, 0, 0, 0, 0, 0, 0>>

\* outcomes: [ok, row, touched] where touched is the sequence of columns written so far
RmwRule(row, fams, rule, now) ==
  IF rule.k \notin {"append", "incr"} \/ rule.f \notin fams THEN {[ok |-> FALSE]}
  ELSE
  LET c     == <<rule.f, rule.q>>
      has   == c \in DOMAIN row
      nts   == IF has THEN Newest(row[c]) ELSE Zero64
      old   == IF has THEN row[c][nts] ELSE <<>>
      ts1   == IF has THEN Max64(TruncMilli(now), nts) ELSE TruncMilli(now)
  IN IF rule.k = "append"
     THEN {[ok |-> TRUE, row |-> PutCell(row, c, ts1, old \o rule.v), c |-> c, ts |-> ts1]}
     ELSE IF has /\ Len(old) = 0
          THEN {[ok |-> FALSE],                                     \* empty existing value: error or zero
                [ok |-> TRUE, row |-> PutCell(row, c, ts1, Add8(Zero8, rule.amt)), c |-> c, ts |-> ts1]}
     ELSE IF has /\ Len(old) # 8 THEN {[ok |-> FALSE]}
     ELSE {[ok |-> TRUE, row |-> PutCell(row, c, ts1, Add8(IF has THEN old ELSE Zero8, rule.amt)),
            c |-> c, ts |-> ts1]}

\* fold; result [ok, row, resp] where resp is a row holding exactly the new cell of every touched column
RECURSIVE RmwList(_, _, _, _, _, _)
RmwList(orig, cur, fams, rules, now, resp) ==
  IF rules = <<>> THEN {[ok |-> TRUE, row |-> cur, resp |-> resp]}
  ELSE UNION { IF o.ok
               THEN RmwList(orig, o.row, fams, Tail(rules), now,
                            [x \in (DOMAIN resp) \cup {o.c} |->
                               IF x = o.c THEN [t \in {o.ts} |-> o.row[o.c][o.ts]] ELSE resp[x]])
               ELSE {[ok |-> FALSE, row |-> orig, resp |-> NoRow]}
               : o \in RmwRule(cur, fams, Head(rules), now) }

Rmw(row, fams, rules, now) ==
  IF rules = <<>> THEN {[ok |-> TRUE, row |-> row, resp |-> NoRow], [ok |-> FALSE, row |-> row, resp |-> NoRow]}
  ELSE RmwList(row, row, fams, rules, now, NoRow)

(***************************************************************************)
(* Canonical presentation of a row and the check of an OBSERVED row.       *)
(* An observed row is a sequence of [f, q, cells] with cells a sequence of *)
(* [ts, v] (plus optional labels), in the order the server returned them.  *)
(***************************************************************************)
ColLess(c, d) == BLess(c[1], d[1]) \/ (c[1] = d[1] /\ BLess(c[2], d[2]))

RECURSIVE SortCols(_)
SortCols(S) ==
  IF S = {} THEN <<>>
  ELSE LET m == CHOOSE x \in S : \A y \in S : x = y \/ ColLess(x, y)
       IN  <<m>> \o SortCols(S \ {m})

RECURSIVE SortTsDesc(_)
SortTsDesc(S) ==
  IF S = {} THEN <<>>
  ELSE LET m == CHOOSE x \in S : \A y \in S : GE64(x, y)
       IN  <<m>> \o SortTsDesc(S \ {m})

CanonCells(cells) == LET ts == SortTsDesc(DOMAIN cells) IN
                     [i \in 1..Len(ts) |-> [ts |-> ts[i], v |-> cells[ts[i]]]]
\* canonical: families ascending, qualifiers ascending, timestamps descending
Canon(row) == LET cs == SortCols(DOMAIN row) IN
              [i \in 1..Len(cs) |-> [f |-> cs[i][1], q |-> cs[i][2], cells |-> CanonCells(row[cs[i]])]]

\* the observed sequence regrouped by ascending family name, keeping the observed order inside a family
ByFamily(obs) ==
  LET fs == SortBytes({obs[i].f : i \in 1..Len(obs)}) IN
  ConcatAll([j \in 1..Len(fs) |-> SelectSeq(obs, LAMBDA c : c.f = fs[j])])

\* each family occupies one contiguous block
FamiliesOnce(obs) ==
  \A i \in 1..(Len(obs) - 1) : obs[i].f # obs[i+1].f => \A k \in (i+1)..Len(obs) : obs[k].f # obs[i].f

StripCells(cs) == [i \in 1..Len(cs) |-> [ts |-> cs[i].ts, v |-> cs[i].v]]
StripObs(obs)  == [i \in 1..Len(obs) |-> [f |-> obs[i].f, q |-> obs[i].q, cells |-> StripCells(obs[i].cells)]]

\* obs is a legal presentation of row: each family once (family order is free), qualifiers ascending
\* within a family, cells in descending timestamp order, one cell per timestamp, nothing else
ObsRowOK(obs, row) == FamiliesOnce(obs) /\ ByFamily(StripObs(obs)) = Canon(row)
=============================================================================
