SPECIFICATION Spec
CONSTANTS
  MaxCells = 2
  Pairs = TRUE
  TwoKeys = TRUE
  DumpEdges = FALSE
  SampleK = 1
CONSTRAINT Constr
VIEW View
INVARIANT InvCanonical
PROPERTY FailedIsNoop
CHECK_DEADLOCK FALSE
