----------------------------- MODULE MC_GcsConds ----------------------------
(***************************************************************************)
(* C04: the whole precondition table.  Four parameters x {unset, equal to  *)
(* current, different from current} (+ 0 for ifGenerationMatch, +          *)
(* unparsable) x object state {absent, (g1,m1), (g1,m2), (g2,m1)} x        *)
(* operation {upload, patch, delete, compose destination, compose source}. *)
(***************************************************************************)
EXTENDS GcsMCBase

CONSTANTS WithBad        \* include unparsable values

B1 == <<98, 49>>
N1 == <<110>>  N2 == <<115>>
None == CondsOf(U, U, U, U)
X == <<120>>
Md5Of(c) == <<109, 100, 53>> \o c

\* object states are reached through real histories: upload (g1,m1); patch (g1,m2); re-upload (g2,m1)
Init == InitWith(<<[ev |-> "CreateBucket", b |-> B1],
                   [ev |-> "Upload", b |-> B1, n |-> N2, proto |-> "media", content |-> X, md5 |-> Md5Of(X), decl |-> "none", attrs |-> <<>>, meta |-> <<>>, conds |-> None, gen |-> 1]>>)

Cur == ObjOr0(st, B1, N1)
GenChoices == {U, V(Cur.gen), V(Cur.gen + 50)} \cup (IF Cur.gen = 0 THEN {V(77)} ELSE {})
GmChoices  == GenChoices \cup {V(0)} \cup (IF WithBad THEN {Bad} ELSE {})
MetaChoices == {U, V(IF Cur.metagen = 0 THEN 1 ELSE Cur.metagen), V(Cur.metagen + 1)}
AllConds == {CondsOf(a, b, c, d) : a \in GmChoices, b \in GenChoices \cup (IF WithBad THEN {Bad} ELSE {}), c \in MetaChoices, d \in MetaChoices}

\* state-building steps (unconditioned)
Build == \/ Do([ev |-> "Upload", b |-> B1, n |-> N1, proto |-> "media", content |-> X, md5 |-> Md5Of(X), decl |-> "none", attrs |-> <<>>, meta |-> <<>>, conds |-> None, gen |-> NextGen(st)])
         \/ Do([ev |-> "Patch", b |-> B1, n |-> N1, attrs |-> <<[k |-> "cc", v |-> <<99>>]>>, meta |-> <<>>, conds |-> None, badBody |-> FALSE])
         \/ Do([ev |-> "Delete", b |-> B1, n |-> N1, conds |-> None])
\* the conditioned operations
CondUpload == \E c \in AllConds, pr \in {"media", "multipart"} :
                Do([ev |-> "Upload", b |-> B1, n |-> N1, proto |-> pr, content |-> <<121>>, md5 |-> Md5Of(<<121>>), decl |-> "none", attrs |-> <<>>, meta |-> <<>>, conds |-> c, gen |-> NextGen(st)])
CondPatch  == \E c \in AllConds : Do([ev |-> "Patch", b |-> B1, n |-> N1, attrs |-> <<[k |-> "cd", v |-> <<100>>]>>, meta |-> <<>>, conds |-> c, badBody |-> FALSE])
CondDelete == \E c \in AllConds : Do([ev |-> "Delete", b |-> B1, n |-> N1, conds |-> c])
CondComposeDst == \E c \in AllConds : Do([ev |-> "Compose", b |-> B1, n |-> N1, srcs |-> <<[n |-> N2, gm |-> U]>>, attrs |-> <<>>, meta |-> <<>>, conds |-> c, gen |-> NextGen(st)])
CondComposeSrc == \E g \in GenChoices \ {U} : Do([ev |-> "Compose", b |-> B1, n |-> N2, srcs |-> <<[n |-> N1, gm |-> g]>>, attrs |-> <<>>, meta |-> <<>>, conds |-> None, gen |-> NextGen(st)])

NCond == Cardinality({i \in 1..Len(path) : ("conds" \in DOMAIN path[i] /\ ~AllUnset(path[i].conds)) \/ (path[i].ev = "Compose" /\ \E k \in 1..Len(path[i].srcs) : ~Unset(path[i].srcs[k].gm))})
BuildSteps == /\ NCond = 0 /\ Build
Next == BuildSteps \/ CondUpload \/ CondPatch \/ CondDelete \/ CondComposeDst \/ CondComposeSrc
Spec == Init /\ [][Next]_vars
\* object states reached: absent, (g1,m1), (g1,m2), (g2,m1) (and the same after a delete / re-creation)
Constr == NCond <= 1 /\ Len(path) <= 6 /\ NextGen(st) <= 5 /\ ObjOr0(st, B1, N1).metagen <= 2 /\ Dump

\* C04: the operation is performed iff every supplied condition holds; the reply code is in the allowed set
CondLaw == [][(last'.op.ev \in {"Upload", "Patch", "Delete"} /\ "conds" \in DOMAIN last'.op /\ ~BadConds(last'.op.conds)) =>
     LET present == HasObj(st, B1, N1)  o == ObjOr0(st, B1, N1)  c == last'.op.conds IN
     /\ last'.resp.ok <=> (Holds(c, present, o) /\ (present \/ last'.op.ev = "Upload"))
     /\ (~Holds(c, present, o) /\ present) => last'.resp.codes \subseteq {412, 304}
     /\ (~last'.resp.ok) => st'.buckets = st.buckets]_vars
=============================================================================
