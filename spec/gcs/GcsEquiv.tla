------------------------------- MODULE GcsEquiv -----------------------------
(***************************************************************************)
(* C09 (equivalence clause): the same sequential program is run on the     *)
(* memory store and on the file store; the two recorded traces (a.ndjson,  *)
(* b.ndjson) must agree event by event on every reply (status, reported    *)
(* metadata, bodies, listings including order and pages) and on every      *)
(* read-back, up to the concrete generation numbers (each trace carries    *)
(* ranks) and timestamps (not recorded).                                   *)
(***************************************************************************)
EXTENDS Naturals, Sequences, Json, TLC

A == ndJsonDeserialize("a.ndjson")
B == ndJsonDeserialize("b.ndjson")
VARIABLE l

Payload(r) == [code |-> r.code, hgen |-> r.hgen, hmetagen |-> r.hmetagen, hctype |-> r.hctype, henc |-> r.henc, hcd |-> r.hcd, view |-> r.view, body |-> r.body,
               persisted |-> r.persisted, done |-> r.done, rewritten |-> r.rewritten, objectSize |-> r.objectSize,
               pages |-> r.pages, ended |-> r.ended, errJSON |-> r.errJSON]
Agree(x, y) == IF x.ev = "Reset" THEN y.ev = "Reset"
               ELSE x.ev = y.ev /\ Payload(x.resp) = Payload(y.resp) /\ x.obs = y.obs

Init == l = 1
Next == /\ l <= Len(A)
        /\ l' = l + 1
        /\ Agree(A[l], B[l]) \/ PrintT(<<"DIFFER", ToJson([tr |-> A[l].tr, i |-> A[l].i, ev |-> A[l].ev])>>)
Spec == Init /\ [][Next]_l
SameLength == Len(A) = Len(B)
Consumed == TLCGet("stats").diameter = Len(A) + 1
=============================================================================
