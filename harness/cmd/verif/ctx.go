package main

import (
	"crypto/sha1"
	"encoding/json"
	"fmt"
	"os"
	"path/filepath"
	"sort"
	"strings"
	"sync"
	"time"
)

// verifRoot is /verif; VERIF_ROOT points an isolated copy (scripts/run-mutant.sh) at itself.
var verifRoot = func() string {
	if r := os.Getenv("VERIF_ROOT"); r != "" {
		return r
	}
	return "/verif"
}()

// Evidence mirrors /root/.vp/EVIDENCE.schema.json.
type Evidence struct {
	PropertyID  string                 `json:"property_id"`
	Tier        string                 `json:"tier"`
	Seed        int64                  `json:"seed"`
	Level       string                 `json:"level"`
	Coverage    map[string]interface{} `json:"coverage"`
	Assumptions []string               `json:"assumptions"`
	WallS       float64                `json:"wall_s"`
	Violations  int                    `json:"violations"`
}

type knownFinding struct {
	Property string `json:"property"`
	ID       string `json:"id"`     // the named deviation / failing site that identifies the finding
	What     string `json:"what"`   // what fails
	Status   string `json:"status"` // "open" | "fixed"
	Commit   string `json:"commit,omitempty"`
}

// Ctx is the state of one check run.
type Ctx struct {
	Prop  string
	Tier  string
	Seed  int64
	Start time.Time

	mu           sync.Mutex
	states       int64 // distinct states of the exhaustive model runs
	transitions  int64 // transitions (states generated) of the exhaustive model runs
	traces       int64 // traces recorded from the implementation and validated by TLC
	events       int64 // trace events validated
	evaluations  int64
	nontrivial   map[string]bool
	samples      []interface{}
	extra        map[string]interface{}
	assumptions  []string
	violations   []string // VIOLATION lines
	knownSeen    map[string]bool
	inconclusive []string
	unreproduced []string
	zeroCoverage []string
	exhaustive   bool
	rule         string
	known        []knownFinding
}

func newCtx(prop, tier string, seed int64) *Ctx {
	c := &Ctx{Prop: prop, Tier: tier, Seed: seed, Start: time.Now(), nontrivial: map[string]bool{}, extra: map[string]interface{}{}, knownSeen: map[string]bool{}}
	b, err := os.ReadFile(filepath.Join(verifRoot, "known-findings.json"))
	if err == nil {
		var all struct {
			Findings []knownFinding `json:"findings"`
		}
		if err := json.Unmarshal(b, &all); err == nil {
			c.known = all.Findings
		}
	}
	return c
}

func (c *Ctx) Quick() bool { return c.Tier != "thorough" }

func (c *Ctx) AddModel(states, transitions int64) {
	c.mu.Lock()
	c.states += states
	c.transitions += transitions
	c.mu.Unlock()
}

func (c *Ctx) AddTraces(traces, events int64) {
	c.mu.Lock()
	c.traces += traces
	c.events += events
	c.mu.Unlock()
}

func (c *Ctx) AddEval(n int64) {
	c.mu.Lock()
	c.evaluations += n
	c.mu.Unlock()
}

// Nontrivial records one distinct non-trivial case (by its canonical key).
func (c *Ctx) Nontrivial(key string) {
	h := sha1.Sum([]byte(key))
	c.mu.Lock()
	c.nontrivial[string(h[:8])] = true
	c.mu.Unlock()
}

func (c *Ctx) Sample(v interface{}) {
	c.mu.Lock()
	if len(c.samples) < 6 {
		c.samples = append(c.samples, v)
	}
	c.mu.Unlock()
}

func (c *Ctx) Extra(k string, v interface{}) {
	c.mu.Lock()
	c.extra[k] = v
	c.mu.Unlock()
}

func (c *Ctx) Assume(s string) {
	c.mu.Lock()
	c.assumptions = append(c.assumptions, s)
	c.mu.Unlock()
}

// Unreproduced records a rejection of a timing-dependent (concurrent, free-running or real-process) run that
// re-execution did not confirm. Verdicts only come from reproduced behaviour, so it is not a violation; and one such
// event is what racing runs on a loaded machine produce now and then, so it does not make the run inconclusive either:
// it is listed in the evidence. More than three in one run point at a problem of the machinery: inconclusive.
func (c *Ctx) Unreproduced(format string, a ...interface{}) {
	c.mu.Lock()
	c.unreproduced = append(c.unreproduced, fmt.Sprintf(format, a...))
	n := len(c.unreproduced)
	c.mu.Unlock()
	if n == 4 {
		c.Inconclusive("more than three rejected runs did not reproduce (see unreproduced_rejections in the evidence)")
	}
}

func (c *Ctx) Inconclusive(format string, a ...interface{}) {
	c.mu.Lock()
	c.inconclusive = append(c.inconclusive, fmt.Sprintf(format, a...))
	c.mu.Unlock()
}

// isKnown reports whether a finding id is listed as an open known finding for this property.
func (c *Ctx) isKnown(id string) (knownFinding, bool) {
	for _, k := range c.known {
		if k.Property == c.Prop && k.ID == id && k.Status != "fixed" {
			return k, true
		}
	}
	return knownFinding{}, false
}

// Violation records a confirmed violation. findingID names the deviation/site (may be ""); replay is
// written to /verif/replays and referenced in the VIOLATION line. If findingID is an open known finding
// for this property, a KNOWN-FINDING line is printed instead (once).
func (c *Ctx) Violation(findingID, what string, replay interface{}) {
	if k, ok := c.isKnown(findingID); ok {
		c.mu.Lock()
		first := !c.knownSeen[findingID]
		c.knownSeen[findingID] = true
		c.mu.Unlock()
		if first {
			fmt.Printf("KNOWN-FINDING: property=%s %s [%s]\n", c.Prop, k.What, k.ID)
		}
		return
	}
	dir := filepath.Join(verifRoot, "replays")
	_ = os.MkdirAll(dir, 0755)
	b, _ := json.MarshalIndent(map[string]interface{}{"property": c.Prop, "finding": findingID, "what": what, "seed": c.Seed, "tier": c.Tier, "case": replay}, "", " ")
	h := sha1.Sum(b)
	path := filepath.Join(dir, fmt.Sprintf("%s-%x.json", c.Prop, h[:6]))
	_ = os.WriteFile(path, b, 0644)
	line := fmt.Sprintf("VIOLATION property=%s replay=%s", c.Prop, path)
	c.mu.Lock()
	n := len(c.violations)
	c.violations = append(c.violations, line)
	c.mu.Unlock()
	if n < 20 {
		fmt.Println(line)
		fmt.Printf("  what: %s\n", what)
	}
}

// Finish writes the evidence file and returns the process exit code.
func (c *Ctx) Finish() int {
	c.mu.Lock()
	defer c.mu.Unlock()
	cov := map[string]interface{}{}
	for k, v := range c.extra {
		cov[k] = v
	}
	if c.states > 0 {
		cov["states"] = c.states
		cov["transitions"] = c.transitions
	}
	cov["traces_validated_against_impl"] = c.traces
	cov["trace_events_validated"] = c.events
	cov["evaluations"] = c.evaluations
	cov["distinct_nontrivial"] = len(c.nontrivial)
	cov["rule"] = c.rule
	cov["exhaustive"] = c.exhaustive
	if len(c.samples) == 0 {
		c.samples = append(c.samples, "no case was explored")
	}
	cov["samples"] = c.samples
	sort.Strings(c.zeroCoverage)
	cov["coverage_zero_actions"] = c.zeroCoverage
	var ks []string
	for k := range c.knownSeen {
		ks = append(ks, k)
	}
	sort.Strings(ks)
	cov["known_findings_seen"] = ks
	if len(c.inconclusive) > 0 {
		cov["inconclusive"] = c.inconclusive
	}
	if len(c.unreproduced) > 0 {
		cov["unreproduced_rejections"] = c.unreproduced
	}
	ev := Evidence{PropertyID: c.Prop, Tier: c.Tier, Seed: c.Seed, Level: "model_checking", Coverage: cov,
		Assumptions: c.assumptions, WallS: time.Since(c.Start).Seconds(), Violations: len(c.violations)}
	if ev.Assumptions == nil {
		ev.Assumptions = []string{}
	}
	_ = os.MkdirAll(filepath.Join(verifRoot, "evidence"), 0755)
	b, _ := json.MarshalIndent(ev, "", " ")
	_ = os.WriteFile(filepath.Join(verifRoot, "evidence", c.Prop+".json"), append(b, '\n'), 0644)
	fmt.Printf("[%s %s seed=%d] states=%d transitions=%d traces=%d events=%d evaluations=%d nontrivial=%d violations=%d known=%s wall=%.1fs\n",
		c.Prop, c.Tier, c.Seed, c.states, c.transitions, c.traces, c.events, c.evaluations, len(c.nontrivial), len(c.violations), strings.Join(ks, ","), ev.WallS)
	for _, s := range c.unreproduced {
		fmt.Println("note (not reproduced, not reported):", s)
	}
	if len(c.violations) > 0 {
		return 1
	}
	if len(c.inconclusive) > 0 {
		for _, s := range c.inconclusive {
			fmt.Println("INCONCLUSIVE:", s)
		}
		return 2
	}
	return 0
}
