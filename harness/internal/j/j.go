// Package j holds the JSON value types shared by the harness and the TLA+ trace specifications:
// byte strings are arrays of ints, 64-bit numbers are [neg, a, b, c] base 10^6 limbs (spec/common/Num64.tla).
package j

import (
	"bytes"
	"encoding/json"
	"fmt"
	"strconv"
)

// B is a byte string, marshalled as a JSON array of ints (never null).
type B []byte

func (b B) MarshalJSON() ([]byte, error) {
	var buf bytes.Buffer
	buf.WriteByte('[')
	for i, c := range b {
		if i > 0 {
			buf.WriteByte(',')
		}
		buf.WriteString(strconv.Itoa(int(c)))
	}
	buf.WriteByte(']')
	return buf.Bytes(), nil
}

func (b *B) UnmarshalJSON(data []byte) error {
	var xs []int
	if err := json.Unmarshal(data, &xs); err != nil {
		return err
	}
	out := make([]byte, len(xs))
	for i, x := range xs {
		out[i] = byte(x)
	}
	*b = out
	return nil
}

func S(s string) B { return B([]byte(s)) }

// N64 is a signed 64-bit number marshalled as [neg, a, b, c] with value = (-1)^neg (a*10^12 + b*10^6 + c).
type N64 int64

func (n N64) MarshalJSON() ([]byte, error) {
	neg := 0
	var u uint64
	if n < 0 {
		neg = 1
		u = uint64(-(int64(n) + 1)) + 1 // safe for MinInt64
	} else {
		u = uint64(n)
	}
	c := u % 1000000
	b := (u / 1000000) % 1000000
	a := u / 1000000000000
	return []byte(fmt.Sprintf("[%d,%d,%d,%d]", neg, a, b, c)), nil
}

func (n *N64) UnmarshalJSON(data []byte) error {
	var xs []int64
	if err := json.Unmarshal(data, &xs); err != nil {
		return err
	}
	if len(xs) != 4 {
		return fmt.Errorf("N64: want 4 limbs, got %v", xs)
	}
	v := xs[1]*1000000000000 + xs[2]*1000000 + xs[3]
	if xs[0] == 1 {
		v = -v
	}
	*n = N64(v)
	return nil
}

// Line marshals v as one NDJSON line; nil slices/maps become empty arrays so that the TLA+ side
// always sees sequences (the formats contain no legitimate null).
func Line(v interface{}) []byte {
	b, err := json.Marshal(v)
	if err != nil {
		panic(err)
	}
	b = bytes.ReplaceAll(b, []byte("null"), []byte("[]"))
	return append(b, '\n')
}
