----------------------------- MODULE MC_BtFilter ----------------------------
(***************************************************************************)
(* C05: every leaf filter over boundary arguments and all depth-2          *)
(* compositions of the leaf basis, evaluated on a fixed three-row table    *)
(* (two families, three qualifiers incl. a binary one, two versions).      *)
(* TLC checks algebraic laws of the filter semantics and (with DumpEdges)  *)
(* prints each read for replay on the real emulator.                       *)
(***************************************************************************)
EXTENDS MCBase

CONSTANTS Depth2         \* TRUE: include all depth-2 compositions

TName == <<116, 49>>   Parent == <<112>>
FamF == <<102>>  FamG == <<103>>
QE == <<>>  QQ == <<113>>  QB == <<255, 0>>
T1 == <<0, 0, 0, 1000>>  T2 == <<0, 0, 0, 2000>>  T3 == <<0, 0, 0, 3000>>
VX == <<120>>  VY == <<121>>  VB == <<0, 255>>  VE == <<>>  VN == <<120, 10, 121>>     \* VN contains a newline
Set(f, q, t, v) == [m |-> "set", f |-> f, q |-> q, ts |-> t, v |-> v]
Setup == <<
  [ev |-> "CreateTable", t |-> TName, parent |-> Parent,
   fams |-> <<[f |-> FamF, rule |-> [t |-> "none"]], [f |-> FamG, rule |-> [t |-> "none"]]>>],
  [ev |-> "MutateRow", t |-> TName, k |-> <<97>>, now |-> T3,
   muts |-> <<Set(FamF, QE, T2, VX), Set(FamF, QE, T1, VY), Set(FamF, QQ, T2, VY), Set(FamG, QQ, T1, VX), Set(FamG, QB, T3, VB)>>],
  [ev |-> "MutateRow", t |-> TName, k |-> <<97, 0>>, now |-> T3,
   muts |-> <<Set(FamG, QQ, T2, VE), Set(FamG, QQ, T1, VN)>>],
  [ev |-> "MutateRow", t |-> TName, k |-> <<98>>, now |-> T3,
   muts |-> <<Set(FamF, QQ, T3, VX), Set(FamF, QQ, T2, VX), Set(FamF, QQ, T1, VB), Set(FamG, QE, T1, VY)>>] >>

Lit(b) == [k |-> "lit", b |-> b]
Cat(xs) == [k |-> "cat", xs |-> xs]
AnyStar == [k |-> "star", x |-> [k |-> "any"]]
DotStar == [k |-> "star", x |-> [k |-> "dot"]]
Basis == {
  [k |-> "pass", b |-> TRUE], [k |-> "block", b |-> TRUE], [k |-> "pass", b |-> FALSE],
  [k |-> "keyre", re |-> Cat(<<Lit(97), AnyStar>>)], [k |-> "keyre", re |-> Lit(97)],
  [k |-> "famre", re |-> Lit(102)], [k |-> "famre", re |-> [k |-> "alt", xs |-> <<Lit(103), Lit(122)>>]],
  [k |-> "qualre", re |-> Lit(113)], [k |-> "qualre", re |-> Cat(<<Lit(255), AnyStar>>)], [k |-> "qualre", re |-> [k |-> "opt", x |-> Lit(113)]],
  [k |-> "valre", re |-> Lit(120)], [k |-> "valre", re |-> Cat(<<Lit(120), DotStar>>)], [k |-> "valre", re |-> Cat(<<Lit(120), AnyStar>>)],
  [k |-> "valre", re |-> [k |-> "bad", b |-> 0]],
  [k |-> "colrange", f |-> FamF, sk |-> "closed", s |-> QQ, ek |-> "none", e |-> <<>>],
  [k |-> "colrange", f |-> FamG, sk |-> "open", s |-> QQ, ek |-> "closed", e |-> QB],
  [k |-> "colrange", f |-> FamF, sk |-> "none", s |-> <<>>, ek |-> "open", e |-> QQ],
  [k |-> "valrange", sk |-> "closed", s |-> VX, ek |-> "open", e |-> VY],
  [k |-> "valrange", sk |-> "open", s |-> VB, ek |-> "closed", e |-> VX],
  [k |-> "tsrange", t0 |-> T1, t1 |-> T2], [k |-> "tsrange", t0 |-> T2, t1 |-> Zero64], [k |-> "tsrange", t0 |-> Zero64, t1 |-> T1],
  [k |-> "tsrange", t0 |-> <<0, 0, 0, 1500>>, t1 |-> Zero64],
  [k |-> "rowlimit", n |-> 0], [k |-> "rowlimit", n |-> 2], [k |-> "rowlimit", n |-> -1],
  [k |-> "rowoffset", n |-> 0], [k |-> "rowoffset", n |-> 2], [k |-> "rowoffset", n |-> 9],
  [k |-> "collimit", n |-> 1], [k |-> "collimit", n |-> 0],
  [k |-> "strip"], [k |-> "label", l |-> <<108>>], [k |-> "badsample"] }
Nil == [k |-> "nil"]
Small == {[k |-> "pass", b |-> TRUE], [k |-> "block", b |-> TRUE], [k |-> "strip"], [k |-> "rowlimit", n |-> 2],
          [k |-> "qualre", re |-> Lit(113)], [k |-> "pass", b |-> FALSE]}
Filters == Basis \cup
  (IF Depth2 THEN {[k |-> kk, fs |-> <<a, b>>] : kk \in {"chain", "inter"}, a \in Basis, b \in Basis}
                  \cup {[k |-> "cond", p |-> p, tb |-> t, fb |-> f] : p \in Basis, t \in Small \cup {Nil}, f \in Small \cup {Nil}}
                  \cup {[k |-> kk, fs |-> <<a>>] : kk \in {"chain", "inter"}, a \in Small}
   ELSE {})

Init == InitWith(Setup)
Read == \E f \in Filters, lim \in {0, 1} :
          Do([ev |-> "ReadRows", t |-> TName, rs |-> [keys |-> <<>>, ranges |-> <<>>], limit |-> lim,
              hasFilter |-> TRUE, filter |-> f, famOrders |-> <<>>])
Next == Read
Spec == Init /\ [][Next]_vars
Constr == Dump

(* algebraic laws of the semantics, evaluated on every stored row *)
Rows == st.tables[TName].rows
CL(k) == CellList(Rows[k], FamOrderFor(Rows[k], <<>>))
Ev(f, k) == Eval(f, CL(k), k)
One(S) == CHOOSE x \in S : TRUE
Valid == {f \in Basis : ~HasInvalid(f)}
Laws ==
  \A k \in DOMAIN Rows :
    /\ \A f \in Valid :
         /\ Cardinality(Ev(f, k)) = 1 /\ ~One(Ev(f, k)).err
         \* chain(pass, f) = f = chain(f, pass) when f keeps something; interleave(f, block) = f
         /\ Ev([k |-> "chain", fs |-> <<[k |-> "pass", b |-> TRUE], f>>], k) = Ev(f, k)
         /\ One(Ev([k |-> "inter", fs |-> <<f, [k |-> "block", b |-> TRUE]>>], k)).cells = One(Ev(f, k)).cells
         \* filters other than strip/label only select cells of the row
         /\ f.k \notin {"strip", "label"} =>
              \A i \in 1..Len(One(Ev(f, k)).cells) : \E n \in 1..Len(CL(k)) : CL(k)[n] = One(Ev(f, k)).cells[i]
    \* limit n and offset n partition the row
    /\ \A n \in 0..3 : One(Ev([k |-> "rowlimit", n |-> n], k)).cells \o One(Ev([k |-> "rowoffset", n |-> n], k)).cells = CL(k)
    \* chain is associative
    /\ \A f \in Valid, g \in {[k |-> "strip"], [k |-> "rowlimit", n |-> 2], [k |-> "qualre", re |-> Lit(113)]}, h \in {[k |-> "collimit", n |-> 1], [k |-> "valre", re |-> Lit(120)]} :
         Ev([k |-> "chain", fs |-> <<[k |-> "chain", fs |-> <<f, g>>], h>>], k) = Ev([k |-> "chain", fs |-> <<f, [k |-> "chain", fs |-> <<g, h>>]>>], k)
    \* an invalid filter evaluated on a row is an error and yields nothing
    /\ \A f \in Basis \ Valid : \A o \in Ev(f, k) : o.err /\ o.cells = <<>>
InvLaws == Laws
\* a read whose filter errs returns no rows; a read never changes the state
ReadLaw == [][last'.op.ev = "ReadRows" => st' = st]_vars
=============================================================================
