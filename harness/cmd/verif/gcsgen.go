package main

import (
	"bytes"
	"compress/gzip"
	"crypto/md5"
	"encoding/base64"
	"fmt"
	"math/rand"
	"strconv"

	"verif/harness/internal/gcs"
	"verif/harness/internal/j"
)

var (
	gcsBuckets = []j.B{j.S("bkt"), j.S("bkt-2")}
	// representable as files side by side (no name is a "directory" of another)
	namesFile = []string{"a.txt", "a/b", "a/c d", "dir/sub/x y.bin", "ünï/ço∂é", "o/o", "b/x", "p%2Fq", "z", "a/b.x", "b/o/y", "dot.s/.hid"}
	// memory store only
	namesMem = []string{"a", "a/", "b", "o", "compose", "rewriteTo", "a.txt/x", "sp ace", "q?x=1", "h#frag", "plus+sign"}
	ctypes   = []string{"text/plain", "application/octet-stream", "image/png", ""}
)

func md5tok(b []byte) j.B {
	h := md5.Sum(b)
	return j.S(base64.StdEncoding.EncodeToString(h[:]))
}

type ggen struct {
	r     *rand.Rand
	names []string
}

func (g ggen) pick(n int) int        { return g.r.Intn(n) }
func (g ggen) chance(p float64) bool { return g.r.Float64() < p }
func (g ggen) bucket() j.B {
	if g.chance(0.8) {
		return gcsBuckets[0]
	}
	return gcsBuckets[1]
}
func (g ggen) name() j.B { return j.S(g.names[g.pick(len(g.names))]) }
func (g ggen) payload(max int) j.B {
	n := 0
	switch x := g.r.Float64(); {
	case x < 0.1:
		n = 0
	case x < 0.8:
		n = 1 + g.pick(12)
	default:
		n = g.pick(max + 1)
	}
	b := make([]byte, n)
	if n >= 40 && g.chance(0.4) {
		// highly compressible: a gzip-encoded request body is then much shorter than the object it carries
		for i := range b {
			b[i] = "abc"[i%3]
		}
		return b
	}
	for i := range b {
		if g.chance(0.7) {
			b[i] = byte('a' + g.pick(26))
		} else {
			b[i] = byte(g.pick(256))
		}
	}
	return j.B(b)
}

func (g ggen) cond(isGen bool, p float64) gcs.Cond {
	if !g.chance(p) {
		return gcs.Unset()
	}
	syms := []string{"cur", "cur", "other", "prev"}
	c := gcs.Cond{K: "val", Sym: syms[g.pick(len(syms))]}
	if !isGen && c.Sym == "prev" {
		c.Sym = "lit"
		c.V = int64(1 + g.pick(3))
	}
	return c
}

func (g ggen) conds(p float64) gcs.Conds {
	c := gcs.Conds{Gm: g.cond(true, p), Gnm: g.cond(true, p/2), Mm: g.cond(false, p/2), Mnm: g.cond(false, p/3)}
	if g.chance(p / 3) {
		c.Gm = gcs.Cond{K: "val", Sym: "zero"}
	}
	if g.chance(p / 12) {
		bad := gcs.Cond{K: "bad", Raw: []string{"abc", "1.5", "0x10", "99999999999999999999", " 1"}[g.pick(5)]}
		switch g.pick(4) {
		case 0:
			c.Gm = bad
		case 1:
			c.Gnm = bad
		case 2:
			c.Mm = bad
		default:
			c.Mnm = bad
		}
	}
	return c
}

func (g ggen) attrs(media bool) []gcs.KV {
	out := []gcs.KV{{K: "ct", V: j.S(ctypes[g.pick(len(ctypes))])}}
	if media {
		if len(out[0].V) == 0 {
			out[0].V = j.S("text/plain")
		}
		return out
	}
	if g.chance(0.3) {
		out = append(out, gcs.KV{K: "cc", V: j.S("no-cache")})
	}
	if g.chance(0.2) {
		out = append(out, gcs.KV{K: "cd", V: j.S("attachment; filename=\"x y\"")})
	}
	if g.chance(0.15) {
		out = append(out, gcs.KV{K: "cl", V: j.S("en")})
	}
	return out
}

func (g ggen) meta() []gcs.KVB {
	var out []gcs.KVB
	keys := []string{"k", "owner", "x-y", "ünï"}
	seen := map[string]bool{}
	for n := g.pick(3); n > 0; n-- {
		k := keys[g.pick(len(keys))]
		if seen[k] {
			continue
		}
		seen[k] = true
		out = append(out, gcs.KVB{K: j.S(k), V: j.S([]string{"v", "", "w w", "ü"}[g.pick(4)])})
	}
	return out
}

func (g ggen) upload(b, n j.B, pc float64) gcs.Op {
	op := gcs.Op{Ev: "Upload", B: b, N: n, Content: g.payload(300), Decl: "none", Conds: g.conds(pc), Gzip: g.chance(0.15)}
	if op.Gzip && g.chance(0.6) {
		op.Content = j.B(bytes.Repeat([]byte("compressible "), 10+g.pick(20))) // the compressed body is far shorter than the object
	}
	if g.chance(0.5) {
		op.Proto = "media"
		op.Attrs = g.attrs(true)
	} else {
		op.Proto = "multipart"
		op.Attrs, op.Meta = g.attrs(false), g.meta()
		op.Decl = []string{"none", "ok", "ok", "wrong", "invalid"}[g.pick(5)]
		if g.chance(0.7) {
			op.Decl = []string{"none", "ok"}[g.pick(2)]
		}
		if g.chance(0.15) { // an object labelled contentEncoding gzip: mostly real gzip data, sometimes not
			op.Attrs = append(op.Attrs, gcs.KV{K: "ce", V: j.S("gzip")})
			if g.chance(0.75) {
				plain := g.payload(120)
				if g.chance(0.3) {
					plain = j.B(bytes.Repeat([]byte("squeeze me "), 5+g.pick(40)))
				}
				var buf bytes.Buffer
				zw := gzip.NewWriter(&buf)
				_, _ = zw.Write(plain)
				_ = zw.Close()
				op.Content, op.IsGz, op.Plain = j.B(buf.Bytes()), true, j.B(plain)
			}
		}
	}
	return op
}

// resumable: an honest client that holds payload P: fresh chunks, re-sent/overlapping ranges, status queries
func (g ggen) resumable(b, n j.B, startIdx int, pc float64, maxLen int) []gcs.Op {
	P := g.payload(maxLen)
	tok := md5tok(P)
	start := gcs.Op{Ev: "ResumableStart", B: b, N: n, Decl: "none", Attrs: g.attrs(false), Meta: g.meta(), Conds: g.conds(pc), Gzip: g.chance(0.1)}
	ops := []gcs.Op{start}
	have := 0
	no308 := g.chance(0.3) // a client that cannot handle 308 answers (for the whole session)
	put := func(lo, total int, data []byte) {
		m := "PUT"
		if g.chance(0.15) {
			m = "POST"
		}
		ops = append(ops, gcs.Op{Ev: "ResumablePut", Ref: startIdx, Lo: lo, Total: total, Data: j.B(data), Md5full: tok, Method: m, No308: no308})
	}
	for steps := 0; steps < 8; steps++ {
		total := -1
		if g.chance(0.4) {
			total = len(P)
		}
		switch x := g.r.Float64(); {
		case x < 0.15: // status query
			put(-1, total, nil)
			if total >= 0 && have >= len(P) {
				return ops
			}
		case x < 0.35 && have > 0: // re-send / overlap from an earlier offset
			lo := g.pick(have)
			hi := lo + 1 + g.pick(len(P)-lo)
			put(lo, total, P[lo:hi])
			have = hi
			if total >= 0 && have >= len(P) {
				return ops
			}
		case x < 0.45 && have+1 < len(P): // a gap: refused
			put(have+1, -1, P[have+1:])
		default:
			if have >= len(P) { // everything persisted but total never announced: finish with a query
				put(-1, len(P), nil)
				return ops
			}
			hi := have + 1 + g.pick(len(P)-have)
			if g.chance(0.3) {
				hi = len(P)
			}
			put(have, total, P[have:hi])
			have = hi
			if total >= 0 && have >= len(P) {
				return ops
			}
		}
	}
	// finish
	if have < len(P) {
		put(have, len(P), P[have:])
	} else {
		put(-1, len(P), nil)
	}
	return ops
}

type gcsProfile struct {
	fileSafe bool
	n        int
	pCond    float64
	wUpload  float64
	wResum   float64
	wPatch   float64
	wDelete  float64
	wRead    float64
	wCompose float64
	wCopy    float64
	wList    float64
	fewNames int
	maxResum int
	wBatch   float64
}

func genGcsProgram(r *rand.Rand, p gcsProfile) []gcs.Op {
	pool := append([]string{}, namesFile...)
	if !p.fileSafe {
		pool = append(pool, namesMem...)
	}
	r.Shuffle(len(pool), func(a, b int) { pool[a], pool[b] = pool[b], pool[a] })
	k := 4 + r.Intn(4)
	if p.fewNames > 0 {
		k = p.fewNames
	}
	g := ggen{r: r, names: pool[:k]}
	prog := []gcs.Op{{Ev: "CreateBucket", B: gcsBuckets[0]}}
	total := p.wUpload + p.wResum + p.wPatch + p.wDelete + p.wRead + p.wCompose + p.wCopy + p.wList + p.wBatch
	for len(prog) < p.n {
		x := g.r.Float64() * total
		b, n := g.bucket(), g.name()
		switch {
		case x >= total-p.wBatch:
			// a batch of two to five deletes / metadata reads / patches / bucket reads, some on the same object
			op := gcs.Op{Ev: "Batch"}
			for k, np := 0, 2+g.pick(4); k < np; k++ {
				pn := g.name()
				if k > 0 && g.chance(0.4) && len(op.Parts[k-1].N) > 0 {
					pn = op.Parts[k-1].N
				}
				part := gcs.Op{B: b, N: pn, Conds: gcs.NoConds()}
				switch g.pick(5) {
				case 0, 1:
					part.Ev, part.Conds = "Delete", g.conds(p.pCond)
				case 2:
					part.Ev = "GetMeta"
				case 3:
					part.Ev, part.Conds, part.Meta = "Patch", g.conds(p.pCond), g.meta()
				default:
					part.Ev, part.N = "GetBucket", nil
					if g.chance(0.3) {
						part.B = j.S("no-such-bucket")
					}
				}
				part.Cid = j.S([]string{"", fmt.Sprintf("<id+%d>", k), fmt.Sprintf("part-%d", k)}[g.pick(3)])
				op.Parts = append(op.Parts, part)
			}
			prog = append(prog, op)
		case x < p.wUpload:
			prog = append(prog, g.upload(b, n, p.pCond))
		case x < p.wUpload+p.wResum:
			prog = append(prog, g.resumable(b, n, len(prog)+1, p.pCond, p.maxResum)...)
		case x < p.wUpload+p.wResum+p.wPatch:
			op := gcs.Op{Ev: "Patch", B: b, N: n, Conds: g.conds(p.pCond), BadBody: g.chance(0.06), Junk: g.chance(0.25)}
			if g.chance(0.7) {
				op.Attrs = g.attrs(false)
				if g.chance(0.5) {
					op.Attrs = op.Attrs[1:]
				}
			}
			if g.chance(0.6) {
				op.Meta = g.meta()
			}
			prog = append(prog, op)
		case x < p.wUpload+p.wResum+p.wPatch+p.wDelete:
			prog = append(prog, gcs.Op{Ev: "Delete", B: b, N: n, Conds: g.conds(p.pCond)})
		case x < p.wUpload+p.wResum+p.wPatch+p.wDelete+p.wRead:
			if g.chance(0.6) {
				prog = append(prog, gcs.Op{Ev: "GetMedia", B: b, N: n, Form: []string{"api", "download", "public"}[g.pick(3)], Slash: g.chance(0.5), AcceptGz: g.chance(0.35)})
			} else {
				prog = append(prog, gcs.Op{Ev: "GetMeta", B: b, N: n, Slash: g.chance(0.5)})
			}
		case x < p.wUpload+p.wResum+p.wPatch+p.wDelete+p.wRead+p.wCompose:
			op := gcs.Op{Ev: "Compose", B: b, N: n, Attrs: g.attrs(false), Meta: g.meta(), Conds: g.conds(p.pCond / 2)}
			ns := g.pick(4)
			if g.chance(0.04) {
				ns = 32 + g.pick(2)
			}
			for i := 0; i < ns; i++ {
				s := gcs.Src{N: g.name(), Gm: gcs.Unset()}
				if g.chance(0.25) {
					s.N = n // destination among its sources
				}
				if g.chance(0.15) {
					s.Gm = gcs.Cond{K: "val", Sym: []string{"cur", "other"}[g.pick(2)]}
				}
				op.Srcs = append(op.Srcs, s)
			}
			if len(op.Srcs) > 0 && g.chance(0.25) {
				// the same source once more, this time conditioned (on its current or on another generation)
				op.Srcs = append(op.Srcs, gcs.Src{N: op.Srcs[0].N, Gm: gcs.Cond{K: "val", Sym: []string{"other", "cur", "other"}[g.pick(3)]}})
			}
			if len(op.Srcs) > 0 && g.chance(0.3) {
				// sources (and perhaps the destination) whose metadata was updated: the result takes its metadata from the
				// request and starts at metageneration 1 all the same
				for _, sn := range []j.B{op.Srcs[0].N, op.Srcs[len(op.Srcs)-1].N, n}[:2+g.pick(2)] {
					prog = append(prog, gcs.Op{Ev: "Patch", B: b, N: sn, Attrs: []gcs.KV{{K: "cd", V: j.S("inline; filename=s")}}, Meta: []gcs.KVB{{K: j.S("src"), V: j.S("1")}}, Conds: gcs.NoConds()})
				}
			}
			prog = append(prog, op)
		case x < p.wUpload+p.wResum+p.wPatch+p.wDelete+p.wRead+p.wCompose+p.wCopy:
			if g.chance(0.4) { // a source whose metadata was updated (once or twice): the copy still starts at metageneration 1
				for k := 1 + g.pick(2); k > 0; k-- {
					prog = append(prog, gcs.Op{Ev: "Patch", B: b, N: n, Meta: []gcs.KVB{{K: j.S("rev"), V: j.S(strconv.Itoa(k))}}, Conds: gcs.NoConds()})
				}
			}
			op := gcs.Op{Ev: "Copy", B: b, N: n, Db: g.bucket(), Dn: g.name(), Slash: g.chance(0.5)}
			if g.chance(0.1) {
				op.Db, op.Dn = b, n
			}
			prog = append(prog, op)
			if g.chance(0.6) { // a patch of the destination must not touch the source
				prog = append(prog, gcs.Op{Ev: "Patch", B: op.Db, N: op.Dn, Meta: []gcs.KVB{{K: j.S("copied"), V: j.S("yes")}}, Conds: gcs.NoConds()})
			}
		default:
			op := gcs.Op{Ev: "List", B: b, MaxResults: []int{0, 1, 2, 3, 1000}[g.pick(5)]}
			if g.chance(0.5) {
				op.Prefix = j.S([]string{"a", "a/", "dir/", "b", "ü", "zz"}[g.pick(6)])
			}
			if g.chance(0.5) {
				op.Delim = j.S([]string{"/", ".", "/o"}[g.pick(3)])
			}
			prog = append(prog, op)
		}
		if g.chance(0.015) {
			prog = append(prog, gcs.Op{Ev: "DeleteBucket", B: gcsBuckets[1]})
		}
	}
	return prog
}
