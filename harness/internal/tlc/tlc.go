// Package tlc runs the TLC model checker on modules of /verif/spec in a private scratch directory and parses its output.
package tlc

import (
	"bufio"
	"bytes"
	"context"
	"encoding/json"
	"fmt"
	"os"
	"os/exec"
	"path/filepath"
	"regexp"
	"strconv"
	"strings"
	"time"
)

// SpecRoot is where the TLA+ modules live.
var SpecRoot = func() string {
	if r := os.Getenv("VERIF_ROOT"); r != "" {
		return r + "/spec"
	}
	return "/verif/spec"
}()

type Options struct {
	Module   string            // module name (without .tla)
	Cfg      string            // config file name inside the spec tree, or literal cfg text if it contains a newline
	Files    map[string][]byte // extra files placed in the scratch directory (e.g. trace.ndjson)
	Workers  int               // 0 = 1
	Timeout  time.Duration
	Simulate string // e.g. "num=100" => -simulate num=100
	Depth    int
	Seed     int64
	Coverage bool
	DFS      bool     // depth-first state queue (for branching trace specs)
	HeapGB   int      // 0 = default
	Extra    []string // extra TLC args
	KeepDir  bool
}

type Result struct {
	Dir        string
	Out        string
	ExitCode   int
	TimedOut   bool
	Generated  int64
	Distinct   int64
	Depth      int
	Printed    [][]json.RawMessage // PrintT(<<"TAG", json-string, ...>>) lines: decoded tuple elements
	ErrorLines []string
	PostFailed bool
	InvViolated string
	Deadlock   bool
	WallS      float64
	ZeroCoverage []string
}

func copySpecs(dst string) error {
	return filepath.Walk(SpecRoot, func(p string, info os.FileInfo, err error) error {
		if err != nil {
			return err
		}
		if info.IsDir() {
			return nil
		}
		if strings.HasSuffix(p, ".tla") || strings.HasSuffix(p, ".cfg") {
			b, err := os.ReadFile(p)
			if err != nil {
				return err
			}
			return os.WriteFile(filepath.Join(dst, filepath.Base(p)), b, 0644)
		}
		return nil
	})
}

var (
	reGenerated = regexp.MustCompile(`(\d+) states generated, (\d+) distinct states found`)
	reDepth     = regexp.MustCompile(`The depth of the complete state graph search is (\d+)`)
	reInv       = regexp.MustCompile(`Invariant (\S+) is violated`)
	reCov0      = regexp.MustCompile(`^<(\w+) line .*>: 0:0$`)
)

// Run executes TLC. A non-nil error means the run itself is unusable (could not start, timed out, TLC internal error).
func Run(o Options) (*Result, error) {
	base := os.Getenv("VERIF_SCRATCH")
	if base == "" {
		base = os.TempDir()
	}
	dir, err := os.MkdirTemp(base, "tlc-")
	if err != nil {
		return nil, err
	}
	res := &Result{Dir: dir}
	if !o.KeepDir {
		defer os.RemoveAll(dir)
	}
	if err := copySpecs(dir); err != nil {
		return res, err
	}
	for name, data := range o.Files {
		if err := os.WriteFile(filepath.Join(dir, name), data, 0644); err != nil {
			return res, err
		}
	}
	cfgName := o.Cfg
	if strings.Contains(o.Cfg, "\n") {
		cfgName = "run_" + o.Module + ".cfg"
		if err := os.WriteFile(filepath.Join(dir, cfgName), []byte(o.Cfg), 0644); err != nil {
			return res, err
		}
	}
	workers := o.Workers
	if workers <= 0 {
		workers = 1
	}
	timeout := o.Timeout
	if timeout == 0 {
		timeout = 10 * time.Minute
	}
	heap := o.HeapGB
	if heap == 0 {
		heap = 8
	}
	args := []string{"-XX:+UseParallelGC", fmt.Sprintf("-Xmx%dg", heap), "-Xss512m"}
	if o.DFS {
		args = append(args, "-Dtlc2.tool.queue.IStateQueue=StateDeque")
	}
	args = append(args, "-cp", "/opt/veriftools/tla/tla2tools.jar:/opt/veriftools/tla/CommunityModules-deps.jar", "tlc2.TLC",
		"-metadir", filepath.Join(dir, "states"), "-workers", strconv.Itoa(workers), "-config", cfgName, "-noGenerateSpecTE")
	if o.Simulate != "" {
		args = append(args, "-simulate", o.Simulate)
	}
	if o.Depth > 0 {
		args = append(args, "-depth", strconv.Itoa(o.Depth))
	}
	if o.Seed != 0 {
		args = append(args, "-seed", strconv.FormatInt(o.Seed, 10))
	}
	if o.Coverage {
		args = append(args, "-coverage", "1")
	}
	args = append(args, o.Extra...)
	args = append(args, o.Module+".tla")
	ctx, cancel := context.WithTimeout(context.Background(), timeout)
	defer cancel()
	cmd := exec.CommandContext(ctx, "java", args...)
	cmd.Dir = dir
	// JAVA_TOOL_OPTIONS must not carry GC selectors that conflict with ours
	env := []string{}
	for _, e := range os.Environ() {
		if strings.HasPrefix(e, "JAVA_TOOL_OPTIONS=") {
			continue
		}
		env = append(env, e)
	}
	cmd.Env = env
	var buf bytes.Buffer
	cmd.Stdout = &buf
	cmd.Stderr = &buf
	start := time.Now()
	err = cmd.Run()
	res.WallS = time.Since(start).Seconds()
	res.Out = buf.String()
	if ctx.Err() == context.DeadlineExceeded {
		res.TimedOut = true
		return res, fmt.Errorf("TLC timed out after %v (module %s)", timeout, o.Module)
	}
	if ee, ok := err.(*exec.ExitError); ok {
		res.ExitCode = ee.ExitCode()
	} else if err != nil {
		return res, err
	}
	parse(res)
	return res, nil
}

func parse(res *Result) {
	sc := bufio.NewScanner(strings.NewReader(res.Out))
	sc.Buffer(make([]byte, 1<<20), 1<<28)
	for sc.Scan() {
		line := sc.Text()
		if strings.HasPrefix(line, "<<\"") && strings.HasSuffix(line, ">>") {
			// a PrintT of a tuple of strings: <<"TAG", "json", ...>>
			inner := "[" + line[2:len(line)-2] + "]"
			var elems []string
			if err := json.Unmarshal([]byte(inner), &elems); err == nil {
				var raw []json.RawMessage
				for i, e := range elems {
					if i == 0 {
						b, _ := json.Marshal(e)
						raw = append(raw, b)
					} else {
						raw = append(raw, json.RawMessage(e))
					}
				}
				res.Printed = append(res.Printed, raw)
			}
			continue
		}
		if m := reGenerated.FindStringSubmatch(line); m != nil {
			res.Generated, _ = strconv.ParseInt(m[1], 10, 64)
			res.Distinct, _ = strconv.ParseInt(m[2], 10, 64)
		}
		if m := reDepth.FindStringSubmatch(line); m != nil {
			res.Depth, _ = strconv.Atoi(m[1])
		}
		if m := reInv.FindStringSubmatch(line); m != nil {
			res.InvViolated = m[1]
		}
		if strings.Contains(line, "Deadlock reached") {
			res.Deadlock = true
		}
		if strings.Contains(line, "Error:") || strings.HasPrefix(line, "Error ") {
			res.ErrorLines = append(res.ErrorLines, line)
			if strings.Contains(line, "ostcondition") {
				res.PostFailed = true
			}
		}
		if m := reCov0.FindStringSubmatch(line); m != nil {
			res.ZeroCoverage = append(res.ZeroCoverage, m[1])
		}
	}
}

// Tag returns the printed tuples whose first element is tag, each as its remaining JSON elements.
func (r *Result) Tag(tag string) [][]json.RawMessage {
	var out [][]json.RawMessage
	want, _ := json.Marshal(tag)
	for _, p := range r.Printed {
		if len(p) > 0 && bytes.Equal(p[0], want) {
			out = append(out, p[1:])
		}
	}
	return out
}

// Tail returns the last n lines of the output (for diagnostics).
func (r *Result) Tail(n int) string {
	lines := strings.Split(strings.TrimRight(r.Out, "\n"), "\n")
	if len(lines) > n {
		lines = lines[len(lines)-n:]
	}
	return strings.Join(lines, "\n")
}
