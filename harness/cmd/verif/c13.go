package main

import (
	"math/rand"

	"verif/harness/internal/bt"
	"verif/harness/internal/j"
)

func init() { checks["C13"] = checkC13 }

var amounts = []j.B{{0, 0, 0, 0, 0, 0, 0, 1}, {0xff, 0xff, 0xff, 0xff, 0xff, 0xff, 0xff, 0xff}, {0x80, 0, 0, 0, 0, 0, 0, 0},
	{0x7f, 0xff, 0xff, 0xff, 0xff, 0xff, 0xff, 0xff}, {0, 0, 0, 0, 0, 0, 1, 0}, {0, 0, 0, 0, 0, 0, 0, 0}, {0xff, 0xff, 0xff, 0xff, 0xff, 0xff, 0xff, 0x9c}}

func (g gen) rmwRule(bad float64) bt.RmwRule {
	f := g.fam(bad)
	q := genQuals[g.pick(3)]
	switch x := g.r.Float64(); {
	case x < 0.5:
		return bt.RmwRule{K: "incr", F: f, Q: q, Amt: amounts[g.pick(len(amounts))]}
	case x < 0.97 || !g.chance(bad):
		return bt.RmwRule{K: "append", F: f, Q: q, V: g.val()}
	}
	return bt.RmwRule{K: "none", F: f, Q: q}
}

// genRmwProgram: cells in the past/present/future with 8-byte, short and empty values, then rule lists.
func genRmwProgram(r *rand.Rand) []bt.Op {
	g := gen{r}
	prog := []bt.Op{createOp(btTable)}
	clock := int64(3000)
	n := 12 + g.pick(25)
	for len(prog) < n {
		if g.chance(0.6) {
			clock += int64(g.pick(3)) * 1000
		}
		now := clock + int64(g.pick(2)*g.pick(1000))
		k := genKeys[g.pick(3)]
		switch x := g.r.Float64(); {
		case x < 0.35:
			ts := []int64{0, 1000, clock, clock + 1000, clock + 5000, maxValidTs, -1}[g.pick(7)]
			prog = append(prog, bt.Op{Ev: "MutateRow", T: btTable, K: k, Now: j.N64(now), Muts: []bt.Mut{{M: "set", F: genFams[g.pick(2)], Q: genQuals[g.pick(3)], Ts: j.N64(ts), V: g.val()}}})
		case x < 0.42:
			prog = append(prog, bt.Op{Ev: "MutateRow", T: btTable, K: k, Now: j.N64(now), Muts: g.muts(2, 0.1)})
		default:
			op := bt.Op{Ev: "ReadModifyWrite", T: btTable, K: k, Now: j.N64(now)}
			nr := 1 + g.pick(4)
			if g.chance(0.03) {
				nr = 0
			}
			for i := 0; i < nr; i++ {
				ru := g.rmwRule(0.12)
				if i > 0 && g.chance(0.4) {
					ru.F, ru.Q = op.Rules[0].F, op.Rules[0].Q
				}
				op.Rules = append(op.Rules, ru)
			}
			prog = append(prog, op)
		}
	}
	return prog
}

// C13 Bigtable: ReadModifyWriteRow increments and appends against the latest cell.
func checkC13(c *Ctx) {
	c.rule = "cases = request histories ending in / containing ReadModifyWriteRow requests: TLC-enumerated transitions of MC_BtRmw (with BFS history) and seeded random programs, executed on the real emulator on every engine, reply row and full read-back validated step by step by TLC against BtData.ReadModifyWrite; distinct = distinct history text; non-trivial = at least one request after table creation"
	c.runBtFamily(btFamily{
		Label: "C13", Module: "MC_BtRmw",
		Quick:     map[string]string{"MaxRules": "2", "MaxCells": "2", "MaxRmw": "1"},
		Thorough:  map[string]string{"MaxRules": "3", "MaxCells": "3", "MaxRmw": "2"},
		DumpQuick: map[string]string{"MaxRules": "2", "MaxCells": "2", "MaxRmw": "1"},
		DumpThor:  map[string]string{"MaxRules": "2", "MaxCells": "2", "MaxRmw": "2"},
		SampleQ:   "400", SampleT: "40", MaxReplayQ: 1200,
		Invariants: []string{"InvCanonical"}, Properties: []string{"FailedIsNoop", "RmwLaws"},
		Gen: genRmwProgram, NRandQ: 150, NRandT: 3000,
	})
}
