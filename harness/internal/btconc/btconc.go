// Package btconc executes schedules of concurrent requests on the real Bigtable emulator: the verification hooks
// of bttest are gates at which the request's handler waits for the scheduler, and every hook logs an event. The
// recorded run (global event log, invocations, replies, final read-back) is validated by
// spec/bigtable/BtConcTrace.tla.
package btconc

import (
	"context"
	"fmt"
	"runtime/debug"
	"strings"
	"sync"
	"time"

	"github.com/fullstorydev/emulators/bigtable/bttest"
	"google.golang.org/grpc/metadata"

	"verif/harness/internal/bt"
	"verif/harness/internal/j"
)

type Event struct {
	P    string   `json:"p"`
	Pt   string   `json:"pt"`
	K    j.B      `json:"k"`
	Op   *bt.Op   `json:"op,omitempty"`
	Resp *bt.Resp `json:"resp,omitempty"`
}

type Run struct {
	ID      int     `json:"id"`
	Setup   []bt.Op `json:"setup"`
	Events  []Event `json:"events"`
	Final   *bt.Obs `json:"final"`
	Blocked []string `json:"blocked,omitempty"`
	Stuck   []string `json:"stuck,omitempty"`
	Panics  []string `json:"panics,omitempty"`
}

// Proc is one concurrent request (Op.Ev = "GcPass" runs a forced GC pass).
type Proc struct {
	Name string
	Op   bt.Op
}

// which hook suffixes are gates (the handler waits there) -- the others only log
var parking = map[string]bool{"beforeLock": true, "locked": true, "afterRead": true, "afterWrite": true, "window": true}

type proc struct {
	at string // where it last parked
	Proc
	gate    chan struct{}
	arrived chan string
	started bool
	parked  bool
	done    bool
	gated   bool // false: free-running (hooks only log)
}

type runner struct {
	mu     sync.Mutex
	events []Event
	procs  map[string]*proc
}

var (
	active   sync.Map // server address -> *runner   (hooks of several servers in one process are told apart by the listener address in the metadata)
	hookOnce sync.Once
)

func procOf(kv []interface{}) (string, string) {
	for _, v := range kv {
		if ctx, ok := v.(context.Context); ok {
			if md, ok := metadata.FromIncomingContext(ctx); ok {
				if x := md.Get("verif-proc"); len(x) > 0 {
					srv := ""
					if y := md.Get("verif-srv"); len(y) > 0 {
						srv = y[0]
					}
					return x[0], srv
				}
			}
			return "", ""
		}
	}
	return "", ""
}

var gcRunner sync.Map // goroutine-less: the GC pass is started by the harness; at most one per server: server key -> struct{}

func installHook() {
	hookOnce.Do(func() {
		bttest.VerifHook = func(point string, kv ...interface{}) {
			name, srv := procOf(kv)
			if strings.HasPrefix(point, "gc.") {
				// the pass runs in a harness goroutine that registered itself
				v, ok := gcRunner.Load(goid())
				if !ok {
					return
				}
				b := v.(*gcBinding)
				b.r.at(b.p, point, kv)
				return
			}
			if name == "" {
				return
			}
			v, ok := active.Load(srv)
			if !ok {
				return
			}
			r := v.(*runner)
			r.mu.Lock()
			p := r.procs[name]
			r.mu.Unlock()
			if p != nil {
				r.at(p, point, kv)
			}
		}
	})
}

type gcBinding struct {
	r *runner
	p *proc
}

func keyOf(kv []interface{}) j.B {
	for _, v := range kv {
		if b, ok := v.([]byte); ok {
			return j.B(append([]byte(nil), b...))
		}
	}
	return nil
}

func (r *runner) at(p *proc, point string, kv []interface{}) {
	suffix := point[strings.Index(point, ".")+1:]
	pt := suffix
	if strings.HasPrefix(point, "gc.") && suffix == "row" {
		pt = "gc.row"
	}
	r.mu.Lock()
	r.events = append(r.events, Event{P: p.Name, Pt: pt, K: keyOf(kv)})
	r.mu.Unlock()
	if p.gated && parking[suffix] {
		p.arrived <- suffix
		<-p.gate
	}
}

func (r *runner) log(e Event) {
	r.mu.Lock()
	r.events = append(r.events, e)
	r.mu.Unlock()
}

// Options of one execution.
type Options struct {
	Wait       time.Duration // how long a released request may take to reach its next gate before it counts as blocked
	Free       bool          // free-running: no gates, requests run concurrently (stress)
	StartDelay time.Duration
}

// Execute runs setup on a fresh table state of srv (the caller provides a fresh server), then the concurrent
// requests under the given schedule (a sequence of process names: "let this request take its next step").
func Execute(id int, srv *bt.Server, setup []bt.Op, procs []Proc, sched []string, opt Options) *Run {
	installHook()
	run := &Run{ID: id}
	for i := range setup {
		op := setup[i]
		srv.Exec(&op)
		op.Resp, op.Obs = nil, nil
		run.Setup = append(run.Setup, op)
	}
	r := &runner{procs: map[string]*proc{}}
	srvKey := srv.Srv.Addr
	active.Store(srvKey, r)
	defer active.Delete(srvKey)
	var wg sync.WaitGroup
	for _, pr := range procs {
		r.procs[pr.Name] = &proc{Proc: pr, gate: make(chan struct{}), arrived: make(chan string, 8), gated: !opt.Free}
	}
	start := func(p *proc) {
		p.started = true
		wg.Add(1)
		go func() {
			defer wg.Done()
			op := p.Op
			r.log(Event{P: p.Name, Pt: "inv", Op: &op})
			if op.Ev == "GcPass" {
				gcRunner.Store(goid(), &gcBinding{r, p})
				func() {
					// the pass runs in this goroutine; in the emulator it runs in the background GC goroutine,
					// where a panic kills the whole process
					defer func() {
						if rec := recover(); rec != nil {
							r.mu.Lock()
							run.Panics = append(run.Panics, fmt.Sprintf("GC pass panicked: %v\n%s", rec, debug.Stack()))
							r.mu.Unlock()
							op.Resp = &bt.Resp{Code: 99, Panic: true, Msg: fmt.Sprint(rec)}
						}
					}()
					srv.Exec(&op)
				}()
				gcRunner.Delete(goid())
			} else {
				srv.ExecCtx(metadata.AppendToOutgoingContext(context.Background(), "verif-proc", p.Name, "verif-srv", srvKey), &op)
			}
			resp := op.Resp
			r.log(Event{P: p.Name, Pt: "ret", Resp: resp})
			p.arrived <- "exit"
		}()
	}
	wait := opt.Wait
	if wait == 0 {
		wait = 30 * time.Millisecond
	}
	arrive := func(p *proc, what string) bool {
		select {
		case pt := <-p.arrived:
			p.at = pt
			if pt == "exit" {
				p.done, p.parked = true, false
			} else {
				p.parked = true
			}
			return true
		case <-time.After(wait):
			run.Blocked = append(run.Blocked, p.Name+"@"+what)
			return false
		}
	}
	drain := func() {
		for _, p := range r.procs {
			for more := true; more; {
				select {
				case pt := <-p.arrived:
					p.at = pt
					if pt == "exit" {
						p.done, p.parked = true, false
					} else {
						p.parked = true
					}
				default:
					more = false
				}
			}
		}
	}
	if opt.Free {
		for _, pr := range procs {
			start(r.procs[pr.Name])
		}
		wg.Wait()
	} else {
		step := func(p *proc) bool { // one step of p; false if it made no progress (blocked in a primitive) or is done
			drain()
			if p.done {
				return false
			}
			if !p.started {
				start(p)
				return arrive(p, "start")
			}
			if p.parked {
				p.parked = false
				p.gate <- struct{}{}
				return arrive(p, "step")
			}
			return false
		}
		for _, name := range sched {
			// "p": one step of p; "p>point": steps of p until it parks at that point (or returns, or blocks);
			// "p!": steps of p until its request returns (or blocks)
			target, toEnd := "", false
			if i := strings.Index(name, ">"); i >= 0 {
				name, target = name[:i], name[i+1:]
			} else if strings.HasSuffix(name, "!") {
				name, toEnd = name[:len(name)-1], true
			}
			p := r.procs[name]
			if p == nil || p.done {
				continue
			}
			if target == "" && !toEnd {
				step(p)
				continue
			}
			for n := 0; n < 10000 && step(p); n++ {
				if target != "" && p.at == target {
					break
				}
			}
		}
		// finish: release everything until all requests have returned
		deadline := time.Now().Add(20 * time.Second)
		for time.Now().Before(deadline) {
			drain()
			all := true
			for _, pr := range procs {
				p := r.procs[pr.Name]
				if !p.started {
					start(p)
				}
				if p.done {
					continue
				}
				all = false
				if p.parked {
					p.parked = false
					p.gate <- struct{}{}
					select {
					case pt := <-p.arrived:
						if pt == "exit" {
							p.done = true
						} else {
							p.parked = true
						}
					case <-time.After(wait):
					}
				}
			}
			if all {
				break
			}
		}
		for _, pr := range procs {
			if !r.procs[pr.Name].done {
				run.Stuck = append(run.Stuck, pr.Name)
			}
		}
		if len(run.Stuck) == 0 {
			wg.Wait()
		}
	}
	r.mu.Lock()
	run.Events = append([]Event(nil), r.events...)
	r.mu.Unlock()
	if len(run.Stuck) == 0 {
		run.Final = srv.Observe()
	}
	return run
}
