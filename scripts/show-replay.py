#!/usr/bin/env python3
"""Readable rendering of a Bigtable replay file (byte arrays -> strings, Num64 limbs -> ints)."""
import json, sys
def conv(x, key=None):
    if isinstance(x, list):
        if len(x) == 4 and all(isinstance(i, int) for i in x) and x[0] in (0, 1) and key in ('ts','s','e','now','t0','t1','us'):
            return (-1 if x[0] else 1) * (x[1]*10**12 + x[2]*10**6 + x[3])
        if x and all(isinstance(i, int) and 0 <= i < 256 for i in x) and key not in ('entries','set'):
            return bytes(x).decode('latin1')
        if x == [] and key in ('k','f','q','v','t','parent','prefix','l','s','e','amt'):
            return ''
        return [conv(i, key) for i in x]
    if isinstance(x, dict):
        return {k: conv(v, k) for k, v in x.items() if v not in (None,)}
    return x
d = json.load(open(sys.argv[1])); c = d['case']
print(d['what'])
full = len(sys.argv) > 2
prog = c.get('program', [])
for i, op in enumerate(prog):
    if full or c.get('failing_step', 0) - 3 <= i + 1 <= c.get('failing_step', 0):
        print(' step', i + 1, json.dumps(conv(op), ensure_ascii=True))
ev = c.get('observed_event')
if ev:
    print(' RESP', json.dumps(conv({k: v for k, v in ev['resp'].items() if v not in (None, [], False)})))
    for t in ev['obs']['tables']:
        print(' OBS table', conv(t['t'], 't'), 'fams', json.dumps(conv(t['fams'])))
        for r in t['rows'] or []:
            print('    row', repr(conv(r['k'], 'k')), json.dumps(conv(r['cols'])))
        print('    samp', json.dumps(conv(t['samp'])))
if c.get('panics'):
    print(' PANICS', c['panics'][0][:600])
