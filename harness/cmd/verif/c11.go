package main

import (
	"encoding/json"
	"math/rand"
	"sort"
	"strings"
	"time"

	"verif/harness/internal/gcs"
	"verif/harness/internal/j"
)

func init() { checks["C11"] = checkC11 }

type listCase struct {
	Names      []j.B `json:"names"`
	Prefix     j.B   `json:"prefix"`
	Delim      j.B   `json:"delim"`
	MaxResults int   `json:"maxResults"`
	FileOK     bool  `json:"fileOK"`
}

// C11 GCS: listing is complete, duplicate-free, ordered for any prefix/delimiter/page.
func checkC11(c *Ctx) {
	c.rule = "cases = list requests (bucket contents, prefix, delimiter, maxResults) followed through all pages: the universe of MC_GcsList (every subset of 7 names with nested directories and names sorting below '/', x 5 prefixes x 4 delimiters incl. multi-character x page sizes 1..4) printed by TLC (sampled in the quick tier, complete in the thorough tier) plus seeded random larger name sets and fixed sets with deep nesting, long names and sibling directories / files whose names differ by a byte below or above the separator; executed over HTTP on both stores (file store: the subsets representable as files); the whole pagination is judged by GcsList.Accept, item metadata against the model state; distinct = distinct (names, prefix, delimiter, maxResults); non-trivial = the bucket holds at least one object"
	r := rand.New(rand.NewSource(c.Seed))
	sk := "3"
	if !c.Quick() {
		sk = "1"
	}
	mc := cfg{Spec: "Spec", Constants: map[string]string{"MaxPage": "4", "DumpEdges": "TRUE", "SampleK": sk}, Constraint: "Constr", Invariants: []string{"InvDenotation", "InvPartition"}}
	res := c.runModel("MC_GcsList", mc, 8, 20*time.Minute, false)
	byNames := map[string][]listCase{}
	var keys []string
	if res != nil {
		for _, p := range res.Tag("CASE") {
			var lc listCase
			if json.Unmarshal(p[0], &lc) != nil {
				continue
			}
			k, _ := json.Marshal(lc.Names)
			if _, ok := byNames[string(k)]; !ok {
				keys = append(keys, string(k))
			}
			byNames[string(k)] = append(byNames[string(k)], lc)
		}
	}
	sort.Strings(keys)
	build := func(names []j.B, cases []listCase) []gcs.Op {
		prog := []gcs.Op{{Ev: "CreateBucket", B: gcsBuckets[0]}}
		for i, n := range names {
			prog = append(prog, gcs.Op{Ev: "Upload", B: gcsBuckets[0], N: n, Proto: "media", Content: j.B{byte('0' + i)}, Decl: "none",
				Attrs: []gcs.KV{{K: "ct", V: j.S("text/plain")}}, Conds: gcs.NoConds()})
		}
		for _, lc := range cases {
			prog = append(prog, gcs.Op{Ev: "List", B: gcsBuckets[0], Prefix: lc.Prefix, Delim: lc.Delim, MaxResults: lc.MaxResults})
		}
		return prog
	}
	var memProgs, fileProgs [][]gcs.Op
	ncases := 0
	for _, k := range keys {
		cases := byNames[k]
		names := cases[0].Names
		for _, lc := range cases {
			c.AddEval(1)
			ncases++
			if len(names) > 0 {
				b, _ := json.Marshal(lc)
				c.Nontrivial(string(b))
			}
		}
		for lo := 0; lo < len(cases); lo += 40 {
			p := build(names, cases[lo:min(lo+40, len(cases))])
			memProgs = append(memProgs, p)
			if cases[0].FileOK && (!c.Quick() || r.Intn(2) == 0) {
				fileProgs = append(fileProgs, p)
			}
		}
	}
	c.Extra("tlc_cases_replayed", ncases)
	if len(memProgs) > 0 {
		c.Sample(map[string]interface{}{"source": "MC_GcsList case (last request of a program)", "program": stripGcs(memProgs[len(memProgs)/2][len(memProgs[len(memProgs)/2])-1:]), "names": byNames[keys[len(keys)/2]][0].Names})
	}
	// random larger name sets, random parameters; also a missing bucket and malformed parameters are left to C20
	nRand := 40
	if !c.Quick() {
		nRand = 30000
	}
	pool := []string{"a", "a.txt", "a/b", "a/c", "ab", "b/c/d", "b/c.e", "a/b/c", "a/b.d", "b", "b/", "c//d", "dir/x", "dir/x/y", "dir.x", "é/ü", "z/o/z", "a/o", "a//", "a/!", "a-b/c", "a.d/e", "a!/f", "dir-x/y", "dir0/x"}
	for i := 0; i < nRand; i++ {
		fileSafe := i%2 == 0
		var names []j.B
		perm := r.Perm(len(pool))
		for _, pi := range perm[:3+r.Intn(9)] {
			n := pool[pi]
			ok := true
			if fileSafe {
				for _, m := range names {
					if len(n) > len(m) && n[:len(m)+1] == string(m)+"/" || len(m) > len(n) && string(m)[:len(n)+1] == n+"/" {
						ok = false
					}
				}
				if n[len(n)-1] == '/' || containsDouble(n) {
					ok = false
				}
			}
			if containsDouble(n) {
				ok = false // empty path segments are cleaned by net/http before the emulator sees them
			}
			if ok {
				names = append(names, j.S(n))
			}
		}
		sort.Slice(names, func(a, b int) bool { return string(names[a]) < string(names[b]) })
		var cases []listCase
		for k := 0; k < 12; k++ {
			cases = append(cases, listCase{Prefix: j.S([]string{"", "a", "a/", "a/b", "b/c", "dir", "é", "z/"}[r.Intn(8)]),
				Delim: j.S([]string{"", "/", "/", "/o", ".", "b/"}[r.Intn(6)]), MaxResults: []int{1, 2, 3, 5, 1000}[r.Intn(5)]})
		}
		p := build(names, cases)
		c.AddEval(int64(len(cases)))
		c.Nontrivial(describeGcs(p))
		if fileSafe {
			fileProgs = append(fileProgs, p)
		}
		memProgs = append(memProgs, p)
	}
	// deep nesting (a page boundary inside a collapsed prefix whose names are nested two and three levels deep, with
	// more names under the same top-level prefix) and names longer than 127 bytes (they end up in page tokens)
	long := strings.Repeat("n", 131)
	for _, set := range [][]string{
		{"a/b/c", "a/b/d", "a/e", "a/b/c2/d", "b", "x/y/z/1", "x/y/z/2", "x/y/w", "x/v"},
		{"a/b/c/d/e", "a/b/c/d/f", "a/b/g", "a/h", "a0", "c/d"},
		{long + "1", long + "2", long + "/x", long + "/y/z", "a", "zz"},
		// sibling directories and files whose names differ from a directory's by a byte below / above '/'
		{"a/1", "a/2", "a-old/1", "a.d/2", "a0/1", "a!", "a+x/y/z", "a/b/3", "a/b-c/4", "a/b.e", "a/b0"},
		{"x/logs/1", "x/logs-old/1", "x/logs.d", "x/logs/2", "x/logs0/1", "x/log", "x-y/1", "x.z"},
	} {
		var names []j.B
		for _, n := range set {
			names = append(names, j.S(n))
		}
		sort.Slice(names, func(a, b int) bool { return string(names[a]) < string(names[b]) })
		var cases []listCase
		for _, pf := range []string{"", "a", "a/", "a/b", "a/b/", "x", "x/", "x/y/", "x/logs", long, long + "/"} {
			if pf != "" && !strings.HasPrefix(set[0], pf[:1]) && !strings.HasPrefix(set[len(set)-3], pf[:1]) {
				continue
			}
			for _, dl := range []string{"/", ""} {
				for _, mr := range []int{1, 2, 3} {
					cases = append(cases, listCase{Prefix: j.S(pf), Delim: j.S(dl), MaxResults: mr})
				}
			}
		}
		p := build(names, cases)
		c.AddEval(int64(len(cases)))
		c.Nontrivial(describeGcs(p))
		fileProgs = append(fileProgs, p)
		memProgs = append(memProgs, p)
	}
	c.exhaustive = !c.Quick()
	c.Extra("exhaustive_scope", "MC_GcsList universe (10 240 list requests): complete in the thorough tier, one in three in the quick tier")
	c.gcsValidate("C11", []string{"mem"}, memProgs, nil)
	c.gcsValidate("C11", []string{"file"}, fileProgs, nil)
	c.Assume("TLC, the Json community module and the harness's HTTP encoder/decoder are trusted; a pagination of more than 60 pages counts as not terminating")
}

func containsDouble(n string) bool {
	for i := 0; i+1 < len(n); i++ {
		if n[i] == '/' && n[i+1] == '/' {
			return true
		}
	}
	return false
}
