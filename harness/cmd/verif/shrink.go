package main

import (
	"encoding/json"
	"fmt"
	"os"

	"verif/harness/internal/bt"
)

// shrink <replay.json>: minimises a rejected sequential Bigtable case: drops the requests that do not matter and
// simplifies the filter / predicate of the rejected request node by node, keeping every step only if TLC still
// rejects the re-executed program. Writes <replay>.min.json. A tool for the reader of a replay file, not a check.
func shrinkMain(path string) int {
	b, err := os.ReadFile(path)
	if err != nil {
		fmt.Fprintln(os.Stderr, err)
		return 2
	}
	var f struct {
		Property string `json:"property"`
		What     string `json:"what"`
		Case     btCase `json:"case"`
		Seed     int64  `json:"seed"`
		Tier     string `json:"tier"`
		Finding  string `json:"finding"`
	}
	if err := json.Unmarshal(b, &f); err != nil || f.Case.Kind != "bt-seq" {
		fmt.Fprintln(os.Stderr, "shrink handles bt-seq replay files only")
		return 2
	}
	cs := f.Case
	concretise([][]bt.Op{cs.Program})
	evals := 0
	rejected := func(prog []bt.Op) bool {
		evals++
		evs, _ := runProgram(cs.Engine, 1, prog)
		rj, _, err := validateBt(encodeTrace(evs))
		return err == nil && len(rj) > 0 && rj[0].I == len(prog) // the LAST request must be the rejected one
	}
	// 1. cut the program after the rejected request; drop requests before it one by one
	prog := append([]bt.Op{}, cs.Program[:cs.Step]...)
	if !rejected(prog) {
		fmt.Println("the case does not reproduce with the rejected request as the last one; nothing shrunk")
		return 2
	}
	for i := len(prog) - 2; i >= 0; i-- {
		cand := append(append([]bt.Op{}, prog[:i]...), prog[i+1:]...)
		if rejected(cand) {
			prog = cand
		}
	}
	// 2. simplify the filter tree of the last request
	last := &prog[len(prog)-1]
	get := func() *bt.Filter {
		if last.Ev == "CheckAndMutate" {
			return last.Pred
		}
		return last.Filter
	}
	set := func(x *bt.Filter) {
		if last.Ev == "CheckAndMutate" {
			last.Pred = x
		} else {
			last.Filter = x
		}
	}
	if get() != nil {
		for changed := true; changed; {
			changed = false
			for _, cand := range simpler(*get()) {
				c := cand
				old := get()
				set(&c)
				if rejected(prog) {
					changed = true
					break
				}
				set(old)
			}
		}
	}
	f.Case.Program, f.Case.Step, f.Case.Event = stripProg(prog), len(prog), nil
	f.What = "minimised: " + f.What
	out, _ := json.MarshalIndent(f, "", " ")
	_ = os.WriteFile(path+".min.json", out, 0644)
	fmt.Printf("%d requests, filter of %d nodes, %d re-executions; written to %s.min.json\n", len(prog), size(get()), evals, path)
	return 0
}

func size(f *bt.Filter) int {
	if f == nil {
		return 0
	}
	n := 1 + size(f.P) + size(f.Tb) + size(f.Fb)
	for i := range f.Fs {
		n += size(&f.Fs[i])
	}
	return n
}

// simpler: every tree obtained from f by one simplification somewhere (a node replaced by one of its children, one
// child of a chain / interleave dropped, a branch of a condition removed)
func simpler(f bt.Filter) []bt.Filter {
	var out []bt.Filter
	switch f.K {
	case "chain", "inter":
		for i := range f.Fs {
			out = append(out, f.Fs[i])
		}
		if len(f.Fs) > 2 {
			for i := range f.Fs {
				g := f
				g.Fs = append(append([]bt.Filter{}, f.Fs[:i]...), f.Fs[i+1:]...)
				out = append(out, g)
			}
		}
		for i := range f.Fs {
			for _, s := range simpler(f.Fs[i]) {
				g := f
				g.Fs = append([]bt.Filter{}, f.Fs...)
				g.Fs[i] = s
				out = append(out, g)
			}
		}
	case "cond":
		for _, c := range []*bt.Filter{f.P, f.Tb, f.Fb} {
			if c != nil && c.K != "nil" {
				out = append(out, *c)
			}
		}
		for which, c := range []*bt.Filter{f.P, f.Tb, f.Fb} {
			if c == nil {
				continue
			}
			for _, s := range simpler(*c) {
				g, s2 := f, s
				switch which {
				case 0:
					g.P = &s2
				case 1:
					g.Tb = &s2
				default:
					g.Fb = &s2
				}
				out = append(out, g)
			}
		}
	}
	return out
}
