------------------------------- MODULE LockMap ------------------------------
(***************************************************************************)
(* gcsutil.TransientLockMap at the grain of its internal steps (C19).      *)
(*                                                                         *)
(* The map of ref-counted one-slot channels is protected by the mutex mu;  *)
(* a key's lock is held while its channel is full.  One action per         *)
(* implementation step between two instrumentation points:                 *)
(*                                                                         *)
(*  Lock(ctx, k):   LockEnter     take mu; look up or create; refcount++   *)
(*                  LockLeave     release mu                               *)
(*                  LockCheckCtx  context already ended?  -> give up       *)
(*                  LockAcquire   send on the channel (enabled when empty) *)
(*                  LockGiveUp    context ended while waiting              *)
(*                  RetEnter/RetLeave  returnLockObj (refcount--, delete   *)
(*                                at 0) on the give-up path -> false       *)
(*  Unlock(k):      UnlEnter      take mu; look up (panic if absent)       *)
(*                  UnlLeave      release mu                               *)
(*                  UnlRecv       receive (panic if the channel is empty)  *)
(*                  RetEnter/RetLeave  returnLockObj                       *)
(*  Cancel(p)       the context of p's current Lock call ends              *)
(*                                                                         *)
(* Each process runs Rounds rounds of  Lock(k) ; [Unlock(k) if acquired].  *)
(* With BadUnlock a process may also call Unlock on a key it does not      *)
(* hold (which must panic without changing anything).                      *)
(***************************************************************************)
EXTENDS Naturals, FiniteSets, TLC

\* (the @type comments are for Apalache, which discharges the inductive invariant of LockMapInd.tla; TLC ignores them)
CONSTANTS
  \* @type: Set(Str);
  Procs,
  \* @type: Set(Str);
  Keys,
  \* @type: Int;
  Rounds,
  \* @type: Bool;
  CanCancel,
  \* @type: Bool;
  BadUnlock

VARIABLES
  \* @type: Str;
  mu,        \* "free" or the process holding the map mutex
  \* @type: Str -> Bool;
  inMap,     \* inMap[k]: the map has an entry for k
  \* @type: Str -> Int;
  ref,       \* ref[k]: its refcount (0 when absent)
  \* @type: Str -> Bool;
  full,      \* full[k]: the channel holds its element (the key lock is held)
  \* @type: Str -> Str;
  pc,
  \* @type: Str -> Str;
  key,
  \* @type: Str -> Bool;
  cancelled,
  \* @type: Str -> Bool;
  holds,
  \* @type: Str -> Int;
  round,
  \* @type: Str -> Str;
  result
vars == <<mu, inMap, ref, full, pc, key, cancelled, holds, round, result>>

PCs == {"idle", "lk_start", "lk_inMu", "lk_ctx", "lk_select", "ret_start", "ret_inMu",
        "ul_start", "ul_inMu", "ul_recv", "panicked", "finished"}

Init == /\ mu = "free"
        /\ inMap = [k \in Keys |-> FALSE] /\ ref = [k \in Keys |-> 0] /\ full = [k \in Keys |-> FALSE]
        /\ pc = [p \in Procs |-> "idle"] /\ key = [p \in Procs |-> CHOOSE k \in Keys : TRUE]
        /\ cancelled = [p \in Procs |-> FALSE] /\ holds = [p \in Procs |-> FALSE]
        /\ round = [p \in Procs |-> 0] /\ result = [p \in Procs |-> "none"]

\* ---- calls ----
\* a rogue Unlock of key k -- a key nobody holds -- is in flight. The property speaks of unlocking a key that IS NOT
\* held: a rogue unlock racing with an acquisition could legitimately take that holder's lock away, so nobody acquires
\* k while one is in flight (the harness runs a rogue unlock to completion while every other goroutine is parked).
\* Goroutines that have registered for k without having acquired it may be anywhere in their Lock call.
RogueOn(k) == \E q \in Procs : pc[q] \in {"ul_start", "ul_inMu", "ul_recv"} /\ ~holds[q] /\ key[q] = k
CallLock(p, k) == /\ pc[p] = "idle" /\ ~holds[p] /\ round[p] < Rounds
                  /\ pc' = [pc EXCEPT ![p] = "lk_start"] /\ key' = [key EXCEPT ![p] = k]
                  /\ cancelled' = [cancelled EXCEPT ![p] = FALSE] /\ round' = [round EXCEPT ![p] = @ + 1]
                  /\ result' = [result EXCEPT ![p] = "none"]
                  /\ UNCHANGED <<mu, inMap, ref, full, holds>>
CallUnlock(p) ==  /\ pc[p] = "idle" /\ holds[p]
                  /\ pc' = [pc EXCEPT ![p] = "ul_start"] /\ result' = [result EXCEPT ![p] = "none"]
                  /\ UNCHANGED <<mu, inMap, ref, full, key, cancelled, holds, round>>
CallBadUnlock(p, k) == /\ BadUnlock /\ pc[p] = "idle" /\ ~holds[p] /\ round[p] < Rounds
                       /\ \A q \in Procs : ~(holds[q] /\ key[q] = k)          \* nobody holds k (or is giving it back)
                       /\ pc' = [pc EXCEPT ![p] = "ul_start"] /\ key' = [key EXCEPT ![p] = k]
                       /\ round' = [round EXCEPT ![p] = @ + 1] /\ result' = [result EXCEPT ![p] = "none"]
                       /\ UNCHANGED <<mu, inMap, ref, full, cancelled, holds>>

\* ---- Lock ----
LockEnter(p) == /\ pc[p] = "lk_start" /\ mu = "free"
                /\ mu' = p /\ inMap' = [inMap EXCEPT ![key[p]] = TRUE] /\ ref' = [ref EXCEPT ![key[p]] = @ + 1]
                /\ pc' = [pc EXCEPT ![p] = "lk_inMu"]
                /\ UNCHANGED <<full, key, cancelled, holds, round, result>>
LockLeave(p) == /\ pc[p] = "lk_inMu" /\ mu = p
                /\ mu' = "free" /\ pc' = [pc EXCEPT ![p] = "lk_ctx"]
                /\ UNCHANGED <<inMap, ref, full, key, cancelled, holds, round, result>>
LockCheckCtx(p) == /\ pc[p] = "lk_ctx"
                   /\ pc' = [pc EXCEPT ![p] = IF cancelled[p] THEN "ret_start" ELSE "lk_select"]
                   /\ UNCHANGED <<mu, inMap, ref, full, key, cancelled, holds, round, result>>
LockAcquire(p) == /\ pc[p] = "lk_select" /\ ~full[key[p]] /\ ~RogueOn(key[p])
                  /\ full' = [full EXCEPT ![key[p]] = TRUE] /\ holds' = [holds EXCEPT ![p] = TRUE]
                  /\ pc' = [pc EXCEPT ![p] = "idle"] /\ result' = [result EXCEPT ![p] = "true"]
                  /\ UNCHANGED <<mu, inMap, ref, key, cancelled, round>>
LockGiveUp(p) == /\ pc[p] = "lk_select" /\ cancelled[p]
                 /\ pc' = [pc EXCEPT ![p] = "ret_start"]
                 /\ UNCHANGED <<mu, inMap, ref, full, key, cancelled, holds, round, result>>
Cancel(p) == /\ CanCancel /\ pc[p] \in {"lk_start", "lk_inMu", "lk_ctx", "lk_select"} /\ ~cancelled[p]
             /\ cancelled' = [cancelled EXCEPT ![p] = TRUE]
             /\ UNCHANGED <<mu, inMap, ref, full, pc, key, holds, round, result>>

\* ---- returnLockObj (shared by the give-up path of Lock and by Unlock) ----
RetEnter(p) == /\ pc[p] = "ret_start" /\ mu = "free"
               /\ mu' = p
               /\ ref' = [ref EXCEPT ![key[p]] = @ - 1]
               /\ inMap' = [inMap EXCEPT ![key[p]] = (ref[key[p]] - 1 > 0)]
               /\ pc' = [pc EXCEPT ![p] = "ret_inMu"]
               /\ UNCHANGED <<full, key, cancelled, holds, round, result>>
RetLeave(p) == /\ pc[p] = "ret_inMu" /\ mu = p
               /\ mu' = "free" /\ pc' = [pc EXCEPT ![p] = "idle"]
               /\ result' = [result EXCEPT ![p] = IF result[p] = "unlocking" THEN "unlocked" ELSE "false"]
               /\ UNCHANGED <<inMap, ref, full, key, cancelled, holds, round>>

\* ---- Unlock ----
UnlEnter(p) == /\ pc[p] = "ul_start" /\ mu = "free"
               /\ IF inMap[key[p]]
                  THEN mu' = p /\ pc' = [pc EXCEPT ![p] = "ul_inMu"] /\ UNCHANGED result
                  ELSE mu' = "free" /\ pc' = [pc EXCEPT ![p] = "idle"] /\ result' = [result EXCEPT ![p] = "panic"]   \* lock not held: panic, nothing changes
               /\ UNCHANGED <<inMap, ref, full, key, cancelled, holds, round>>
UnlLeave(p) == /\ pc[p] = "ul_inMu" /\ mu = p
               /\ mu' = "free" /\ pc' = [pc EXCEPT ![p] = "ul_recv"]
               /\ UNCHANGED <<inMap, ref, full, key, cancelled, holds, round, result>>
UnlRecv(p) == /\ pc[p] = "ul_recv"
              /\ IF full[key[p]]
                 THEN /\ full' = [full EXCEPT ![key[p]] = FALSE] /\ pc' = [pc EXCEPT ![p] = "ret_start"]
                      /\ result' = [result EXCEPT ![p] = "unlocking"] /\ holds' = [holds EXCEPT ![p] = FALSE]    \* released here
                 ELSE UNCHANGED <<full, holds>> /\ pc' = [pc EXCEPT ![p] = "idle"] /\ result' = [result EXCEPT ![p] = "panic"]
              /\ UNCHANGED <<mu, inMap, ref, key, cancelled, round>>

Step(p) == \/ \E k \in Keys : CallLock(p, k) \/ CallBadUnlock(p, k)
           \/ CallUnlock(p)
           \/ LockEnter(p) \/ LockLeave(p) \/ LockCheckCtx(p) \/ LockAcquire(p) \/ LockGiveUp(p)
           \/ RetEnter(p) \/ RetLeave(p) \/ UnlEnter(p) \/ UnlLeave(p) \/ UnlRecv(p)
Next == \E p \in Procs : Step(p) \/ Cancel(p)
Spec == Init /\ [][Next]_vars
\* fairness of every process's own steps (not of Cancel, not of new calls)
Progress(p) == LockEnter(p) \/ LockLeave(p) \/ LockCheckCtx(p) \/ LockAcquire(p) \/ LockGiveUp(p) \/ RetEnter(p) \/ RetLeave(p)
               \/ UnlEnter(p) \/ UnlLeave(p) \/ UnlRecv(p) \/ CallUnlock(p)
FairSpec == Spec /\ \A p \in Procs : WF_vars(Progress(p)) /\ SF_vars(LockAcquire(p)) /\ SF_vars(LockEnter(p) \/ RetEnter(p) \/ UnlEnter(p))

(******************************* properties *********************************)
TypeOK == /\ mu \in Procs \cup {"free"} /\ \A p \in Procs : pc[p] \in PCs
\* for every key at most one caller holds the lock, and the channel is full exactly then
Mutex == \A k \in Keys : /\ Cardinality({p \in Procs : holds[p] /\ key[p] = k}) <= 1
                         /\ full[k] <=> \E p \in Procs : key[p] = k /\ holds[p]
\* the map has an entry exactly while the refcount is positive, and the refcount counts the callers
\* between refcount++ and refcount--
Between(p) == pc[p] \in {"lk_inMu", "lk_ctx", "lk_select", "ret_start"} \/ holds[p]
RefCount == \A k \in Keys : /\ inMap[k] <=> ref[k] > 0
                            /\ ref[k] = Cardinality({p \in Procs : key[p] = k /\ Between(p)})
\* Lock returns false only because its context ended, and then holds nothing
FalseOnlyIfCancelled == \A p \in Procs : result[p] = "false" => (cancelled[p] /\ ~holds[p])
\* unlocking a key that is not held panics instead of corrupting state (holders/refcounts are untouched: RefCount, Mutex)
PanicOnlyIfNotHeld == \A p \in Procs : result[p] = "panic" => ~holds[p]
\* once no caller holds or awaits any lock the map retains no entries
NoLeak == (\A p \in Procs : pc[p] = "idle" /\ ~holds[p]) => (\A k \in Keys : ~inMap[k] /\ ref[k] = 0 /\ ~full[k]) /\ mu = "free"
\* the map mutex is only held across non-blocking steps
MuShort == mu # "free" => pc[mu] \in {"lk_inMu", "ret_inMu", "ul_inMu"}

\* liveness (under FairSpec): a waiter on a free key eventually stops waiting (acquires or gives up);
\* whenever the lock is free and somebody waits, somebody acquires or all waiters give up
Waiting(p) == pc[p] = "lk_select"
NoLostWakeup == \A p \in Procs : (Waiting(p) /\ ~cancelled[p]) ~> (holds[p] \/ cancelled[p])
\* every started call finishes unless it waits for a held key forever because the holder never unlocks
CallsFinish == \A p \in Procs : (pc[p] \in {"lk_start", "lk_inMu", "lk_ctx", "ret_start", "ret_inMu", "ul_start", "ul_inMu", "ul_recv"}) ~> (pc[p] \in {"idle", "lk_select"})
=============================================================================
