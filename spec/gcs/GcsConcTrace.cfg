SPECIFICATION Spec
CONSTRAINT Mark
INVARIANT InvGen
POSTCONDITION Report
CHECK_DEADLOCK FALSE
