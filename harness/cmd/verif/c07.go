package main

import (
	"bytes"
	"encoding/json"
	"fmt"
	"math/rand"
	"os"
	"sort"
	"sync"
	"time"

	"verif/harness/internal/gcs"
	"verif/harness/internal/gcsconc"
	"verif/harness/internal/j"
	"verif/harness/internal/tlc"
)

func init() { checks["C07"] = checkC07 }

var gcsMixKinds = map[string][]string{
	"put3": {"putIfGen", "putIfGen", "putIfGen"}, "create": {"putIfAbsent", "putIfAbsent", "get"},
	"patch": {"patchIfMeta", "patchIfMeta", "get"}, "mixed": {"putIfGen", "delIfGen", "patchIfMeta"}, "reads": {"putIfGen", "get", "get"}, "putdel": {"put", "del", "patchIfMeta"},
}
var gcsMixPresent = map[string]bool{"put3": true, "create": false, "patch": true, "mixed": true, "reads": true, "putdel": true}

func gcsConcCfg(mix string, relaxed, twoStep bool, spec string, invs, props []string, constraint string) cfg {
	b := map[bool]string{true: "TRUE", false: "FALSE"}
	return cfg{Spec: spec, Constants: map[string]string{"MixName": `"` + mix + `"`, "Procs": "<-MProcs", "Kind": "<-MKind", "StartPresent": "<-MPresent",
		"Relaxed": b[relaxed], "TwoStepRead": b[twoStep], "TornWrite": "FALSE"}, Invariants: invs, Properties: props, Constraint: constraint}
}

var gcsConcInvs = []string{"OneWinner", "SomeWinner", "NoLostPatch", "PatchOnMatch", "ReadConsistent"}

var (
	concBucket  = j.S("bkt")
	concBucket2 = j.S("bkt-2")
	concObj     = j.S("dir/obj.txt")
)

func gcsConcOp(kind, who string, n j.B) gcs.Op {
	nc := gcs.NoConds()
	switch kind {
	case "putIfGen":
		nc.Gm = gcs.Cond{K: "val", Sym: "cur"}
		return gcs.Op{Ev: "Upload", B: concBucket, N: n, Proto: "media", Content: j.S("content of " + who), Decl: "none", Attrs: []gcs.KV{{K: "ct", V: j.S("text/" + who)}}, Conds: nc}
	case "putIfAbsent":
		nc.Gm = gcs.Cond{K: "val", Sym: "zero"}
		return gcs.Op{Ev: "Upload", B: concBucket, N: n, Proto: "multipart", Content: j.S("created by " + who), Decl: "ok", Attrs: []gcs.KV{{K: "ct", V: j.S("text/" + who)}}, Meta: []gcs.KVB{{K: j.S("by"), V: j.S(who)}}, Conds: nc}
	case "put":
		return gcs.Op{Ev: "Upload", B: concBucket, N: n, Proto: "media", Content: j.S("plain " + who), Decl: "none", Attrs: []gcs.KV{{K: "ct", V: j.S("text/" + who)}}, Conds: nc}
	case "patchIfMeta":
		nc.Mm = gcs.Cond{K: "val", Sym: "cur"}
		return gcs.Op{Ev: "Patch", B: concBucket, N: n, Meta: []gcs.KVB{{K: j.S(who), V: j.S("1")}}, Conds: nc}
	case "patch":
		return gcs.Op{Ev: "Patch", B: concBucket, N: n, Meta: []gcs.KVB{{K: j.S(who), V: j.S("1")}}, Attrs: []gcs.KV{{K: "cc", V: j.S("cc-" + who)}}, Conds: nc}
	case "delIfGen":
		nc.Gm = gcs.Cond{K: "val", Sym: "cur"}
		return gcs.Op{Ev: "Delete", B: concBucket, N: n, Conds: nc}
	case "del":
		return gcs.Op{Ev: "Delete", B: concBucket, N: n, Conds: nc}
	case "get":
		return gcs.Op{Ev: "GetMedia", B: concBucket, N: n, Form: "api"}
	case "compose":
		return gcs.Op{Ev: "Compose", B: concBucket, N: n, Srcs: []gcs.Src{{N: j.S("src1"), Gm: gcs.Unset()}, {N: j.S("src2"), Gm: gcs.Unset()}}, Attrs: []gcs.KV{{K: "ct", V: j.S("text/" + who)}}, Conds: nc}
	case "copy":
		return gcs.Op{Ev: "Copy", B: concBucket, N: j.S("src1"), Db: concBucket, Dn: n}
	case "xcopy": // from another bucket
		return gcs.Op{Ev: "Copy", B: concBucket2, N: j.S("src3"), Db: concBucket, Dn: n}
	case "composeIfGen":
		nc.Gm = gcs.Cond{K: "val", Sym: "cur"}
		return gcs.Op{Ev: "Compose", B: concBucket, N: n, Srcs: []gcs.Src{{N: j.S("src1"), Gm: gcs.Unset()}, {N: j.S("src2"), Gm: gcs.Unset()}}, Attrs: []gcs.KV{{K: "ct", V: j.S("text/" + who)}}, Conds: nc}
	case "composeAppend": // the append idiom: the destination is its own first source
		return gcs.Op{Ev: "Compose", B: concBucket, N: n, Srcs: []gcs.Src{{N: n, Gm: gcs.Unset()}, {N: j.S("src1"), Gm: gcs.Unset()}}, Attrs: []gcs.KV{{K: "ct", V: j.S("text/" + who)}}, Conds: nc}
	case "composeIfAbsent":
		nc.Gm = gcs.Cond{K: "val", Sym: "zero"}
		return gcs.Op{Ev: "Compose", B: concBucket, N: n, Srcs: []gcs.Src{{N: j.S("src2"), Gm: gcs.Unset()}, {N: j.S("src1"), Gm: gcs.Unset()}}, Attrs: []gcs.KV{{K: "ct", V: j.S("text/" + who)}}, Conds: nc}
	}
	panic(kind)
}

func gcsConcSetup(present bool) []gcs.Op {
	nc := gcs.NoConds()
	ops := []gcs.Op{{Ev: "CreateBucket", B: concBucket},
		{Ev: "Upload", B: concBucket, N: j.S("src1"), Proto: "media", Content: j.S("S1"), Decl: "none", Attrs: []gcs.KV{{K: "ct", V: j.S("text/plain")}}, Conds: nc},
		{Ev: "Upload", B: concBucket, N: j.S("src2"), Proto: "media", Content: j.S("S2"), Decl: "none", Attrs: []gcs.KV{{K: "ct", V: j.S("text/plain")}}, Conds: nc}}
	if present {
		ops = append(ops, gcs.Op{Ev: "Upload", B: concBucket, N: concObj, Proto: "multipart", Content: j.S("v0"), Decl: "none",
			Attrs: []gcs.KV{{K: "ct", V: j.S("text/v0")}}, Meta: []gcs.KVB{{K: j.S("m"), V: j.S("0")}}, Conds: nc})
	} else {
		ops = append(ops, gcs.Op{Ev: "GetMeta", B: concBucket, N: concObj}) // registers the name for the read-backs
	}
	ops = append(ops, gcs.Op{Ev: "GetMeta", B: concBucket, N: j.S("other")})
	ops = append(ops, gcs.Op{Ev: "CreateBucket", B: concBucket2},
		gcs.Op{Ev: "Upload", B: concBucket2, N: j.S("src3"), Proto: "media", Content: j.S("S3 from the other bucket"), Decl: "none", Attrs: []gcs.KV{{K: "ct", V: j.S("text/s3")}}, Conds: nc})
	return ops
}

type gcsConcJob struct {
	store string
	setup []gcs.Op
	procs []gcsconc.Proc
	sched []string
	free  bool
	label string
}

func (jb gcsConcJob) MarshalJSON() ([]byte, error) {
	type pj struct {
		Name string `json:"name"`
		Op   gcs.Op `json:"op"`
	}
	var ps []pj
	for _, p := range jb.procs {
		ps = append(ps, pj{p.Name, p.Op})
	}
	return json.Marshal(map[string]interface{}{"store": jb.store, "setup": stripGcs(jb.setup), "procs": ps, "sched": jb.sched, "free": jb.free, "label": jb.label})
}

func runGcsConcJob(id int, jb gcsConcJob) *gcsconc.Run {
	dir := ""
	if jb.store == "file" {
		dir = tmpDir()
	}
	s, err := gcs.Start(jb.store, dir)
	if err != nil {
		panic(err)
	}
	defer s.CloseAndRemove()
	return gcsconc.Execute(id, s, jb.setup, jb.procs, jb.sched, gcsconc.Options{Free: jb.free})
}

func validateGcsConc(runs []*gcsconc.Run) ([]concReject, error) {
	var out []concReject
	start := 0
	for start < len(runs) {
		var buf bytes.Buffer
		for _, r := range runs[start:] {
			buf.Write(j.Line(r))
		}
		if d := os.Getenv("VERIF_KEEP_TRACE"); d != "" {
			_ = os.WriteFile(fmt.Sprintf("%s/gconc-%d-%d.ndjson", d, runs[start].ID, time.Now().UnixNano()%1000000), buf.Bytes(), 0644)
		}
		res, err := tlc.Run(tlc.Options{Module: "GcsConcTrace", Cfg: "GcsConcTrace.cfg", Workers: 1, HeapGB: 4, Timeout: 30 * time.Minute, Files: map[string][]byte{"trace.ndjson": buf.Bytes()}})
		if err != nil {
			return out, err
		}
		if res.ExitCode != 0 {
			return out, fmt.Errorf("TLC GcsConcTrace exit %d: %v", res.ExitCode, firstN(res.ErrorLines, 4))
		}
		for _, p := range res.Tag("DEVIATION") {
			var dv struct {
				ID  int    `json:"id"`
				L   int    `json:"l"`
				Dev string `json:"dev"`
			}
			if json.Unmarshal(p[0], &dv) == nil {
				out = append(out, concReject{ID: dv.ID, L: dv.L, Pt: "deviation", Why: dv.Dev})
			}
		}
		hw := res.Tag("HIGHWATER")
		if len(hw) == 0 {
			return out, fmt.Errorf("TLC GcsConcTrace printed no high-water mark")
		}
		var h struct{ Run, L, Total int }
		if err := json.Unmarshal(hw[0][0], &h); err != nil {
			return out, err
		}
		if h.Run > h.Total {
			return out, nil
		}
		bad := runs[start+h.Run-1]
		cr := concReject{ID: bad.ID, L: h.L, Pt: "final read-back", Why: "the final read-back is not the state the commits produce"}
		if h.L <= len(bad.Events) {
			cr.Pt = bad.Events[h.L-1].P + " " + bad.Events[h.L-1].Pt
			cr.Why = "the specification does not allow this event here (or its reply is not what the commits produce)"
		}
		out = append(out, cr)
		start += h.Run
	}
	return out, nil
}

func (c *Ctx) runGcsConc(label string, jobs []gcsConcJob, classify func(jb gcsConcJob, rj concReject, run *gcsconc.Run) string) {
	runs := make([]*gcsconc.Run, len(jobs))
	var wg sync.WaitGroup
	sem := make(chan struct{}, 10)
	for i := range jobs {
		wg.Add(1)
		go func(i int) {
			defer wg.Done()
			sem <- struct{}{}
			defer func() { <-sem }()
			runs[i] = runGcsConcJob(i+1, jobs[i])
		}(i)
	}
	wg.Wait()
	fmt.Fprintf(os.Stderr, "[%s] %d runs executed at %.1fs\n", label, len(jobs), time.Since(c.Start).Seconds())
	var ok []*gcsconc.Run
	for i, r := range runs {
		c.AddEval(1)
		b, _ := json.Marshal(struct {
			L string
			S string
		}{jobs[i].label, jobs[i].store})
		c.Nontrivial(string(b))
		if len(r.Aborted) > 0 || len(r.Stuck) > 0 {
			again := 0
			for t := 0; t < 3; t++ {
				if rr := runGcsConcJob(i+1, jobs[i]); len(rr.Aborted) > 0 || len(rr.Stuck) > 0 {
					again++
				}
			}
			if again >= 2 {
				id := ""
				if classify != nil {
					id = classify(jobs[i], concReject{Pt: "aborted"}, r)
				}
				c.Violation(id, fmt.Sprintf("%s: store %s, %s: a request got no reply (connection closed: handler panic) or never returned: aborted=%v stuck=%v (reproduced %d/3)", label, jobs[i].store, jobs[i].label, r.Aborted, r.Stuck, again),
					map[string]interface{}{"kind": "gcs-conc", "job": jobs[i], "aborted": r.Aborted, "stuck": r.Stuck})
			} else {
				c.Unreproduced("%s: an aborted/stuck request did not reproduce (%s)", label, jobs[i].label)
			}
			continue
		}
		ok = append(ok, r)
	}
	batch := 25
	var mu sync.Mutex
	var rejects []concReject
	var vw sync.WaitGroup
	vsem := make(chan struct{}, 10)
	for lo := 0; lo < len(ok); lo += batch {
		hi := min(lo+batch, len(ok))
		vw.Add(1)
		go func(lo, hi int) {
			defer vw.Done()
			vsem <- struct{}{}
			defer func() { <-vsem }()
			rj, err := validateGcsConc(ok[lo:hi])
			if err != nil {
				c.Inconclusive("%s: GcsConcTrace validation: %v", label, err)
				return
			}
			c.AddTraces(int64(hi-lo), 0)
			mu.Lock()
			rejects = append(rejects, rj...)
			mu.Unlock()
		}(lo, hi)
	}
	vw.Wait()
	fmt.Fprintf(os.Stderr, "[%s] validated at %.1fs (%d rejected)\n", label, time.Since(c.Start).Seconds(), len(rejects))
	sort.SliceStable(rejects, func(a, b int) bool { return rejects[a].Pt != "deviation" && rejects[b].Pt == "deviation" })
	nconf := 0
	for _, rj := range rejects {
		if rj.Pt != "deviation" {
			nconf++
		}
		if nconf > 8 {
			fmt.Printf("  (further rejected runs not individually confirmed)\n")
			break
		}
		jb := jobs[rj.ID-1]
		if rj.Pt == "deviation" {
			if _, known := c.isKnown(rj.Why); known {
				// a named deviation that is a listed known finding: reported once, from the recorded run itself
				c.Violation(rj.Why, "", nil)
				continue
			}
		}
		again := 0
		var last *gcsconc.Run
		var lastRj concReject
		for t := 0; t < 3; t++ {
			rr := runGcsConcJob(1, jb)
			if len(rr.Stuck) > 0 || len(rr.Aborted) > 0 {
				continue
			}
			if x, err := validateGcsConc([]*gcsconc.Run{rr}); err == nil && len(x) > 0 {
				again++
				last, lastRj = rr, x[0]
			}
		}
		if again < 2 {
			c.Unreproduced("%s: run %d (%s, store %s) was rejected at event %d (%s) but re-execution was accepted %d/3 times", label, rj.ID, jb.label, jb.store, rj.L, rj.Pt, 3-again)
			continue
		}
		id := ""
		if lastRj.Pt == "deviation" {
			id = lastRj.Why
		}
		if classify != nil && id == "" {
			id = classify(jb, lastRj, last)
		}
		what := fmt.Sprintf("%s: store %s, %s: the recorded concurrent run is not a behaviour of the specification (event %d %s: %s; reproduced %d/3)", label, jb.store, jb.label, lastRj.L, lastRj.Pt, lastRj.Why, again)
		c.Violation(id, what, map[string]interface{}{"kind": "gcs-conc", "job": jb, "rejected_event": lastRj, "recorded_events": last.Events[:min(len(last.Events), 120)]})
	}
}

// C07 GCS: concurrent operations on one object are atomic and serialisable.
func checkC07(c *Ctx) {
	c.rule = "cases = concurrent HTTP requests on one object (and free-running mixes on two names): (a) schedules = complete behaviours of the RELAXED GcsConc model (object-lock guard dropped) for the mixes put3 (three uploads conditioned on the same generation), create (two uploads conditioned on non-existence + a read), patch (two metageneration-conditioned patches + a read), mixed (conditional upload, delete, patch), reads (upload + two media reads), putdel (upload, delete, patch: the delete can land between an upload's commit and its reply) -- every behaviour in which the model lets two writers win / loses a patch, plus a sample of the others -- attempted on the real emulator through the hook gates on both stores (the writer can be parked between the file store's content and sidecar writes, the reader between its metadata and content reads); (b) free-running runs with 8-14 clients (uploads, patches, deletes, composes and copies to the same destination, media reads); every recorded run validated by TLC (GcsConcTrace); distinct = distinct (mix, schedule, store); non-trivial = every case"
	r := rand.New(rand.NewSource(c.Seed))
	mixes := []string{"put3", "create", "patch", "mixed", "reads", "putdel"}
	for _, mix := range mixes {
		safe := gcsConcCfg(mix, false, false, "Spec", gcsConcInvs, nil, "")
		res, err := tlc.Run(tlc.Options{Module: "MC_GcsConc", Cfg: safe.TextSubst(), Workers: 4, Timeout: 10 * time.Minute})
		if err != nil || res.ExitCode != 0 {
			c.Inconclusive("TLC MC_GcsConc safe %s: %v %s", mix, err, res.Tail(6))
			continue
		}
		c.AddModel(res.Distinct, res.Generated)
		live := gcsConcCfg(mix, false, false, "FairSpec", nil, []string{"Termination"}, "")
		if res, err = tlc.Run(tlc.Options{Module: "MC_GcsConc", Cfg: live.TextSubst(), Workers: 4, Timeout: 10 * time.Minute}); err != nil || res.ExitCode != 0 {
			c.Inconclusive("TLC MC_GcsConc liveness %s: %v", mix, err)
		}
		if mix != "reads" && mix != "putdel" {
			rel := gcsConcCfg(mix, true, false, "Spec", gcsConcInvs, nil, "")
			if res, err = tlc.Run(tlc.Options{Module: "MC_GcsConc", Cfg: rel.TextSubst(), Workers: 4, Timeout: 10 * time.Minute}); err != nil {
				c.Inconclusive("TLC MC_GcsConc relaxed %s: %v", mix, err)
			} else if res.InvViolated == "" {
				c.Inconclusive("the relaxed model of mix %s violates nothing: the check would be vacuous", mix)
			} else {
				c.Extra("relaxed_"+mix+"_violates", res.InvViolated)
			}
		}
	}
	// the model of the file store's two-step read shows the torn read
	if res, err := tlc.Run(tlc.Options{Module: "MC_GcsConc", Cfg: gcsConcCfg("reads", false, true, "Spec", gcsConcInvs, nil, "").TextSubst(), Workers: 4, Timeout: 10 * time.Minute}); err == nil {
		c.Extra("model_two_step_read_violates", res.InvViolated)
	}
	nsim, keep := 1200, 25
	if !c.Quick() {
		nsim, keep = 40000, 500
	}
	var jobs []gcsConcJob
	nsched := 0
	for _, mix := range mixes {
		cf := gcsConcCfg(mix, true, true, "SSpec", nil, nil, "PrintSched")
		res, err := tlc.Run(tlc.Options{Module: "MC_GcsConcSched", Cfg: cf.TextSubst(), Workers: 1, Timeout: 15 * time.Minute, Seed: c.Seed, Simulate: fmt.Sprintf("num=%d", nsim), Depth: 60})
		if err != nil || res.ExitCode != 0 {
			c.Inconclusive("TLC MC_GcsConcSched %s: %v %s", mix, err, res.Tail(6))
			continue
		}
		var bad, good []concSched
		seen := map[string]bool{}
		for _, p := range res.Tag("SCHED") {
			if seen[string(p[0])] {
				continue
			}
			seen[string(p[0])] = true
			var s concSched
			if json.Unmarshal(p[0], &s) == nil {
				if s.Bad {
					bad = append(bad, s)
				} else {
					good = append(good, s)
				}
			}
		}
		r.Shuffle(len(bad), func(a, b int) { bad[a], bad[b] = bad[b], bad[a] })
		r.Shuffle(len(good), func(a, b int) { good[a], good[b] = good[b], good[a] })
		c.Extra("schedules_"+mix, map[string]int{"adversarial": len(bad), "other": len(good)})
		if len(bad) > keep*2 {
			bad = bad[:keep*2]
		}
		if len(good) > keep {
			good = good[:keep]
		}
		for n, s := range append(bad, good...) {
			var procs []gcsconc.Proc
			// the writers of the protocol model stand for every kind of request that commits under the object lock:
			// in two of three jobs one writer is a compose onto, or a copy from another bucket onto, the same object
			subst := map[string][3]string{"putIfGen": {"composeIfGen", "xcopy", "composeAppend"}, "putIfAbsent": {"composeIfAbsent", "xcopy", "composeIfAbsent"}, "put": {"composeIfGen", "xcopy", "composeAppend"}}
			substituted := false
			for i, k := range gcsMixKinds[mix] {
				if alt, ok := subst[k]; ok && !substituted && n%4 != 0 && (i+n/4)%2 == 0 {
					k = alt[n%4-1]
					substituted = true
				}
				procs = append(procs, gcsconc.Proc{Name: procName(i + 1), Op: gcsConcOp(k, procName(i+1), concObj)})
			}
			var sched []string
			for _, p := range s.Steps {
				sched = append(sched, procName(p))
			}
			jobs = append(jobs, gcsConcJob{store: allStores[n%2], setup: gcsConcSetup(gcsMixPresent[mix]), procs: procs, sched: sched, label: fmt.Sprintf("mix %s, schedule %v", mix, s.Steps)})
			nsched++
			if nsched == 1 {
				c.Sample(map[string]interface{}{"source": "behaviour of the relaxed GcsConc model used as a schedule", "mix": mix, "schedule": s.Steps})
			}
		}
	}
	// a delete (or overwrite) landing between a write's commit and the read-back for its reply
	for _, st := range allStores {
		for _, second := range []string{"del", "put", "patch"} {
			for _, first := range []string{"put", "patch", "putIfGen"} {
				procs := []gcsconc.Proc{{Name: "p1", Op: gcsConcOp(first, "p1", concObj)}, {Name: "p2", Op: gcsConcOp(second, "p2", concObj)}}
				jobs = append(jobs, gcsConcJob{store: st, setup: gcsConcSetup(true), procs: procs,
					sched: []string{"p1", "p1", "p1", "p1", "p1", "p2", "p2", "p2", "p2", "p2", "p2", "p2", "p1", "p1"},
					label: fmt.Sprintf("%s parked before its reply read, then %s", first, second)})
			}
		}
	}
	nStress := 16
	if !c.Quick() {
		nStress = 300
	}
	kinds := []string{"put", "patch", "get", "putIfGen", "del", "compose", "copy", "patchIfMeta", "get", "put", "putIfAbsent", "patch", "get", "delIfGen", "composeAppend", "composeAppend"}
	for i := 0; i < nStress; i++ {
		var procs []gcsconc.Proc
		n := 8 + r.Intn(7)
		for p := 0; p < n; p++ {
			name := concObj
			if r.Intn(4) == 0 {
				name = j.S("other")
			}
			procs = append(procs, gcsconc.Proc{Name: procName(p + 1), Op: gcsConcOp(kinds[(p+i)%len(kinds)], procName(p+1), name)})
		}
		jobs = append(jobs, gcsConcJob{store: allStores[i%2], setup: gcsConcSetup(i%3 != 0), procs: procs, free: true, label: fmt.Sprintf("free-running %d clients %d", n, i)})
	}
	c.Extra("stress_runs", nStress)
	fmt.Fprintf(os.Stderr, "[C07] schedules ready at %.1fs\n", time.Since(c.Start).Seconds())
	c.runGcsConc("C07", jobs, nil)
	c.Assume("TLC and the Json module are trusted; hooks are add-only one-liners under the build tag verif; a request is identified by an X-Verif-Proc header bound to its handler goroutine at Handler.start")
	c.Assume("the metadata echoed in an upload/patch reply is read after the lock is released and may be that of a later state (by design): any state of the object from the commit to the reply is accepted")
}

func init() {
	replayers["gcs-conc"] = func(raw json.RawMessage) (bool, string) {
		var cs struct {
			Job struct {
				Store string   `json:"store"`
				Setup []gcs.Op `json:"setup"`
				Sched []string `json:"sched"`
				Free  bool     `json:"free"`
				Label string   `json:"label"`
				Procs []struct {
					Name string `json:"name"`
					Op   gcs.Op `json:"op"`
				} `json:"procs"`
			} `json:"job"`
		}
		if err := json.Unmarshal(raw, &cs); err != nil {
			return false, "inconclusive: " + err.Error()
		}
		jb := gcsConcJob{store: cs.Job.Store, setup: cs.Job.Setup, sched: cs.Job.Sched, free: cs.Job.Free, label: cs.Job.Label}
		for _, p := range cs.Job.Procs {
			jb.procs = append(jb.procs, gcsconc.Proc{Name: p.Name, Op: p.Op})
		}
		for t := 0; t < 3; t++ {
			rr := runGcsConcJob(1, jb)
			if len(rr.Aborted) > 0 || len(rr.Stuck) > 0 {
				return true, fmt.Sprintf("aborted=%v stuck=%v", rr.Aborted, rr.Stuck)
			}
			x, err := validateGcsConc([]*gcsconc.Run{rr})
			if err != nil {
				return false, "inconclusive: " + err.Error()
			}
			if len(x) > 0 {
				return true, fmt.Sprintf("rejected at event %d (%s): %s", x[0].L, x[0].Pt, x[0].Why)
			}
		}
		return false, "accepted (3 executions)"
	}
}
