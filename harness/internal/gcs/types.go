// Package gcs drives the real Cloud Storage emulator (gcsemu) over HTTP and records what it does in the
// event format that spec/gcs/GcsTrace.tla validates. No oracle logic lives here.
package gcs

import (
	"encoding/json"
	"sort"

	"verif/harness/internal/j"
)

// Cond is one precondition parameter. K: unset | val | bad.
// For val, Sym says how the value is chosen when the request is issued:
//
//	lit (V as is), cur (the object's current generation/metageneration as last read back, or 12345 if absent),
//	other (current+1: a value different from the current one), prev (an earlier generation of that name),
//	zero, model (V is a generation number of the TLC model: translated through the replay's model->real table)
type Cond struct {
	K   string `json:"k"`
	V   int64  `json:"v"`
	Sym string `json:"sym,omitempty"`
	Raw string `json:"raw,omitempty"` // for bad: the unparsable text
}

type Conds struct {
	Gm  Cond `json:"gm"`
	Gnm Cond `json:"gnm"`
	Mm  Cond `json:"mm"`
	Mnm Cond `json:"mnm"`
}

func Unset() Cond { return Cond{K: "unset"} }
func NoConds() Conds {
	return Conds{Gm: Unset(), Gnm: Unset(), Mm: Unset(), Mnm: Unset()}
}

type KV struct {
	K string `json:"k"`
	V j.B    `json:"v"`
}

type KVB struct {
	K j.B `json:"k"`
	V j.B `json:"v"`
}

type Attrs struct {
	Ct j.B `json:"ct"`
	Cc j.B `json:"cc"`
	Cd j.B `json:"cd"`
	Ce j.B `json:"ce"`
	Cl j.B `json:"cl"`
}

type View struct {
	Gen     int64 `json:"gen"`
	Metagen int64 `json:"metagen"`
	Md5     j.B   `json:"md5"`
	Size    int   `json:"size"`
	Attrs   Attrs `json:"attrs"`
	Meta    []KVB `json:"meta"`
}

type Item struct {
	N    j.B  `json:"n"`
	View View `json:"view"`
}

type Page struct {
	Items    []Item `json:"items"`
	Prefixes []j.B  `json:"prefixes"`
}

type Src struct {
	N  j.B  `json:"n"`
	Gm Cond `json:"gm"`
}

type Resp struct {
	Code       int        `json:"code"`
	Hgen       int64      `json:"hgen"`
	Hmetagen   int64      `json:"hmetagen"`
	Hctype     j.B        `json:"hctype"`
	Henc       j.B        `json:"henc"` // Content-Encoding of a media reply
	Hcd        j.B        `json:"hcd"`  // Content-Disposition of a media reply
	View       View       `json:"view"`
	HasView    bool       `json:"hasView"`
	Body       j.B        `json:"body"`
	Persisted  int        `json:"persisted"`
	Override   int        `json:"override"` // X-Http-Status-Code-Override of the reply (0 if absent)
	Done       bool       `json:"done"`
	Rewritten  int        `json:"rewritten"`
	ObjectSize int        `json:"objectSize"`
	Pages      []Page     `json:"pages"`
	Parts      []PartResp `json:"parts"` // Batch: the sub-responses in the order received
	Ended      bool       `json:"ended"`
	ErrJSON    bool       `json:"errJSON"`
	Aborted    bool       `json:"aborted"`
	Raw        string     `json:"raw,omitempty"`
}

// PartResp is one sub-response of a batch.
type PartResp struct {
	Cid  j.B   `json:"cid"` // its Content-ID
	Resp *Resp `json:"resp"`
}

type ObsObj struct {
	N        j.B   `json:"n"`
	Present  bool  `json:"present"`
	View     View  `json:"view"`
	Content  j.B   `json:"content"`
	MediaGen int64 `json:"mediaGen"`
}

type ObsBucket struct {
	B      j.B      `json:"b"`
	Exists bool     `json:"exists"`
	Listed []j.B    `json:"listed"`
	Objs   []ObsObj `json:"objs"`
}

type Obs struct {
	Buckets []ObsBucket `json:"buckets"`
	Same    bool        `json:"-"`
}

func (o Obs) MarshalJSON() ([]byte, error) {
	if o.Same {
		return []byte(`{"same":true}`), nil
	}
	type alias Obs
	return json.Marshal(alias(o))
}

// Op is one request (and once executed its reply and read-back).
type Op struct {
	Ev string `json:"ev"`
	Tr int    `json:"tr"`
	I  int    `json:"i"`
	B  j.B    `json:"b"`
	N  j.B    `json:"n"`

	// uploads
	Proto   string `json:"proto,omitempty"` // media | multipart | resumable-start (harness-level encoding of Upload)
	Gzip    bool   `json:"gzip,omitempty"`  // request body sent with Content-Encoding: gzip
	Content j.B    `json:"content"`
	Md5     j.B    `json:"md5"`  // token: base64 MD5 of Content computed by the harness
	Decl    string `json:"decl"` // none | ok | wrong | invalid
	Attrs   []KV   `json:"attrs"`
	Meta    []KVB  `json:"meta"`
	Conds   Conds  `json:"conds"`
	Gen     int64  `json:"gen"` // the generation the reply reported (logged choice of the write action)

	// resumable
	Id      int    `json:"id"`
	Ref     int    `json:"ref,omitempty"` // program-level: index of the ResumableStart op this PUT belongs to
	Lo      int    `json:"lo"`
	Total   int    `json:"total"`
	Data    j.B    `json:"data"`
	Md5full j.B    `json:"md5full"`
	Method  string `json:"method,omitempty"`

	// reads
	AcceptGz bool   `json:"acceptGz"` // GetMedia: send Accept-Encoding: gzip (no decompressive transcoding wanted)
	IsGz     bool   `json:"isgz"`     // Upload: Content is the gzip encoding of Plain (a fact about the codec, declared by the harness)
	Plain    j.B    `json:"plain"`
	Form     string `json:"form,omitempty"`  // api | download | public
	Slash    bool   `json:"slash,omitempty"` // send '/' of the object name unescaped in the URL path

	No308   bool  `json:"no308"` // ResumablePut: send X-Guploader-No-308: yes
	Parts   []Op  `json:"parts"` // Batch: the sub-requests (Delete, GetMeta, GetBucket, Patch), each with its Content-ID
	Cid     j.B   `json:"cid"`
	BadBody bool  `json:"badBody"`
	Junk    bool  `json:"junk,omitempty"` // Patch: the body also carries output-only fields (generation, metageneration, size, ...) with stale values; they are not writable
	Srcs    []Src `json:"srcs"`
	Db      j.B   `json:"db"`
	Dn      j.B   `json:"dn"`

	Kill    bool  `json:"kill"`
	Metagen int64 `json:"metagen"`

	Prefix     j.B `json:"prefix"`
	Delim      j.B `json:"delim"`
	MaxResults int `json:"maxResults"`

	Resp *Resp `json:"resp,omitempty"`
	Obs  *Obs  `json:"obs,omitempty"`
}

var opFields = map[string][]string{
	"Reset":          {},
	"CreateBucket":   {"b"},
	"GetBucket":      {"b", "cid"},
	"Batch":          {"parts"},
	"DeleteBucket":   {"b"},
	"Upload":         {"b", "n", "proto", "gzip", "content", "md5", "decl", "attrs", "meta", "conds", "gen", "isgz", "plain"},
	"ResumableStart": {"b", "n", "decl", "attrs", "meta", "conds", "id"},
	"ResumablePut":   {"id", "ref", "lo", "total", "data", "md5full", "gen", "method", "no308"},
	"GetMedia":       {"b", "n", "form", "slash", "acceptGz"},
	"GetMeta":        {"b", "n", "slash", "cid"},
	"Patch":          {"b", "n", "attrs", "meta", "conds", "badBody", "junk", "cid"},
	"Delete":         {"b", "n", "conds", "cid"},
	"Compose":        {"b", "n", "srcs", "attrs", "meta", "conds", "gen"},
	"Copy":           {"b", "n", "db", "dn", "gen"},
	"List":           {"b", "prefix", "delim", "maxResults"},
	"Restart":        {"kill"},
	"LegacyFile":     {"b", "n", "content", "gen", "metagen"},
}

type opAlias Op

func (o Op) MarshalJSON() ([]byte, error) {
	b, err := json.Marshal(opAlias(o))
	if err != nil {
		return nil, err
	}
	keep, ok := opFields[o.Ev]
	if !ok {
		return b, nil
	}
	var m map[string]json.RawMessage
	if err := json.Unmarshal(b, &m); err != nil {
		return nil, err
	}
	out := map[string]json.RawMessage{}
	for _, k := range append([]string{"ev", "tr", "i", "resp", "obs"}, keep...) {
		if v, ok := m[k]; ok {
			out[k] = v
		}
	}
	return json.Marshal(out)
}

func sortMeta(m map[string]string) []KVB {
	var out []KVB
	for k, v := range m {
		out = append(out, KVB{K: j.S(k), V: j.S(v)})
	}
	sort.Slice(out, func(a, b int) bool { return string(out[a].K) < string(out[b].K) })
	return out
}
