package main

import (
	"math/rand"
	"time"

	"verif/harness/internal/bt"
)

// btFamily describes one Bigtable sequential check: a bounded TLC model (checked exhaustively, then
// asked to print its transitions with their histories for replay) and a random program generator.
type btFamily struct {
	Label      string
	Module     string
	Quick      map[string]string // model constants, quick tier
	Thorough   map[string]string
	DumpQuick  map[string]string // constants for the transition dump (DumpEdges/SampleK are added)
	DumpThor   map[string]string
	SampleQ    string // SampleK for quick / thorough dumps
	SampleT    string
	MaxReplayQ int // cap on replayed transitions in the quick tier (0 = all printed)
	Invariants []string
	Properties []string
	Gen        func(r *rand.Rand) []bt.Op
	NRandQ     int
	NRandT     int
	Engines    []string
	Classify   func(engine string, prog []bt.Op, rej btReject, ev *bt.Op) string
	Coverage   bool
}

func withDump(m map[string]string, dump bool, k string) map[string]string {
	out := map[string]string{}
	for a, b := range m {
		out[a] = b
	}
	if dump {
		out["DumpEdges"] = "TRUE"
	} else {
		out["DumpEdges"] = "FALSE"
	}
	out["SampleK"] = k
	return out
}

func (c *Ctx) runBtFamily(f btFamily) {
	r := rand.New(rand.NewSource(c.Seed))
	consts, dconsts, sk, nRand, maxReplay := f.Quick, f.DumpQuick, f.SampleQ, f.NRandQ, f.MaxReplayQ
	if !c.Quick() {
		consts, dconsts, sk, nRand, maxReplay = f.Thorough, f.DumpThor, f.SampleT, f.NRandT, 0
	}
	if dconsts == nil {
		dconsts = consts
	}
	engines := f.Engines
	if engines == nil {
		engines = allEngines
	}
	var paths [][]bt.Op
	if f.Module != "" {
		mc := cfg{Spec: "Spec", Constants: withDump(consts, false, "1"), Constraint: "Constr", View: "View", Invariants: f.Invariants, Properties: f.Properties}
		c.runModel(f.Module, mc, 12, 30*time.Minute, c.Quick() || f.Coverage)
		dump := cfg{Spec: "Spec", Constants: withDump(dconsts, true, sk), Constraint: "Constr", View: "View"}
		paths = c.dumpPaths(f.Module, dump, 30*time.Minute, 8)
		concretise(paths)
		c.Extra("tlc_transitions_printed", len(paths))
		paths = samplePrograms(r, paths, maxReplay)
		c.Extra("tlc_transitions_replayed", len(paths))
	}
	var progs [][]bt.Op
	if f.Gen != nil {
		for i := 0; i < nRand; i++ {
			progs = append(progs, f.Gen(r))
		}
	}
	all := append(append([][]bt.Op{}, paths...), progs...)
	for _, p := range all {
		c.AddEval(1)
		if len(p) > 1 {
			c.Nontrivial(describe(p))
		}
	}
	if len(paths) > 0 {
		c.Sample(map[string]interface{}{"source": "TLC transition with its BFS history (" + f.Module + ")", "program": stripProg(paths[len(paths)/2])})
	}
	if len(progs) > 0 {
		p := progs[0]
		if len(p) > 6 {
			p = p[:6]
		}
		c.Sample(map[string]interface{}{"source": "seeded random program (first requests)", "program": stripProg(p)})
	}
	c.Extra("engines", engines)
	c.btValidate(f.Label, engines, all, f.Classify)
	c.Assume("TLC, the Json community module and the harness's request encoder / chunk decoder are trusted; the harness holds no oracle logic")
	c.Assume("requests go over real gRPC on loopback to an in-process emulator with an injected clock; every request is followed by a full read-back (schema, all rows, key sample) of every table")
}
