package main

import (
	"bytes"
	"encoding/json"
	"fmt"
	"math/rand"
	"os"
	"sort"
	"strings"
	"sync"
	"time"

	"verif/harness/internal/bt"
	"verif/harness/internal/j"
	"verif/harness/internal/tlc"
)

// ---- configuration text for TLC ----

type cfg struct {
	Spec       string
	Constants  map[string]string
	Constraint string
	View       string
	Invariants []string
	Properties []string
	Post       string
	Deadlock   bool
}

func (c cfg) Text() string {
	var b strings.Builder
	fmt.Fprintf(&b, "SPECIFICATION %s\n", c.Spec)
	if len(c.Constants) > 0 {
		b.WriteString("CONSTANTS\n")
		var ks []string
		for k := range c.Constants {
			ks = append(ks, k)
		}
		sort.Strings(ks)
		for _, k := range ks {
			fmt.Fprintf(&b, "  %s = %s\n", k, c.Constants[k])
		}
	}
	if c.Constraint != "" {
		fmt.Fprintf(&b, "CONSTRAINT %s\n", c.Constraint)
	}
	if c.View != "" {
		fmt.Fprintf(&b, "VIEW %s\n", c.View)
	}
	for _, i := range c.Invariants {
		fmt.Fprintf(&b, "INVARIANT %s\n", i)
	}
	for _, p := range c.Properties {
		fmt.Fprintf(&b, "PROPERTY %s\n", p)
	}
	if c.Post != "" {
		fmt.Fprintf(&b, "POSTCONDITION %s\n", c.Post)
	}
	if !c.Deadlock {
		b.WriteString("CHECK_DEADLOCK FALSE\n")
	}
	return b.String()
}

// runModel runs an exhaustive TLC model-checking config and accounts its states. Any TLC error
// (invariant violated in the MODEL, evaluation error, timeout) makes the run inconclusive: a model
// problem is a specification bug, never a verdict about the code.
func (c *Ctx) runModel(module string, cf cfg, workers int, timeout time.Duration, coverage bool) *tlc.Result {
	res, err := tlc.Run(tlc.Options{Module: module, Cfg: cf.Text(), Workers: workers, Timeout: timeout, Coverage: coverage})
	if err != nil {
		c.Inconclusive("TLC %s: %v", module, err)
		return res
	}
	if res.ExitCode != 0 {
		c.Inconclusive("TLC %s exit %d: %s", module, res.ExitCode, res.Tail(12))
		return res
	}
	c.AddModel(res.Distinct, res.Generated)
	if coverage {
		c.mu.Lock()
		for _, z := range res.ZeroCoverage {
			c.zeroCoverage = append(c.zeroCoverage, module+"."+z)
		}
		c.mu.Unlock()
	}
	return res
}

// ---- executing programs on the real emulator and validating the traces with TLC ----

type btReject struct {
	Engine string
	Tr     int
	I      int
	Ev     string
	Why    string
}

func tmpDir() string {
	base := os.Getenv("VERIF_SCRATCH")
	if base == "" {
		base = os.TempDir()
	}
	d, err := os.MkdirTemp(base, "vf-")
	if err != nil {
		panic(err)
	}
	return d
}

// runProgram executes one program on a fresh emulator of the given engine.
func runProgram(engine string, tr int, prog []bt.Op) ([]bt.Op, []string) {
	dir := ""
	if engine == "disk" {
		dir = tmpDir()
	}
	s, err := bt.Start(engine, dir)
	if err != nil {
		panic(err)
	}
	defer s.CloseAndRemove()
	evs := s.Run(tr, prog)
	return evs, s.Panics
}

func encodeTrace(evs []bt.Op) []byte {
	var buf bytes.Buffer
	for i := range evs {
		buf.Write(j.Line(evs[i]))
	}
	return buf.Bytes()
}

func validateBt(trace []byte) ([]btReject, *tlc.Result, error) {
	res, err := tlc.Run(tlc.Options{Module: "BtTrace", Cfg: "BtTrace.cfg", Files: map[string][]byte{"trace.ndjson": trace}, Timeout: 20 * time.Minute, HeapGB: 3})
	if err != nil {
		return nil, res, err
	}
	if res.ExitCode != 0 {
		return nil, res, fmt.Errorf("TLC BtTrace exit %d: %s", res.ExitCode, res.Tail(15))
	}
	var out []btReject
	for _, p := range res.Tag("REJECT") {
		var r struct {
			Tr  int    `json:"tr"`
			I   int    `json:"i"`
			Ev  string `json:"ev"`
			Why string `json:"why"`
		}
		if len(p) > 0 && json.Unmarshal(p[0], &r) == nil {
			out = append(out, btReject{Tr: r.Tr, I: r.I, Ev: r.Ev, Why: r.Why})
		}
	}
	return out, res, nil
}

// stripProg removes replies and read-backs (what a replay file stores as the input).
func stripProg(p []bt.Op) []bt.Op {
	out := make([]bt.Op, len(p))
	for i := range p {
		out[i] = p[i]
		out[i].Resp, out[i].Obs = nil, nil
	}
	return out
}

type btCase struct {
	Kind    string   `json:"kind"`
	Engine  string   `json:"engine"`
	Program []bt.Op  `json:"program"`
	Step    int      `json:"failing_step"`
	Why     string   `json:"why"`
	Event   *bt.Op   `json:"observed_event,omitempty"`
	Panics  []string `json:"panics,omitempty"`
}

// btValidate runs every program on every engine, validates all traces with TLC and confirms each
// rejection by re-executing that program from scratch. Confirmed rejections become violations.
func (c *Ctx) btValidate(label string, engines []string, progs [][]bt.Op, classify func(engine string, prog []bt.Op, rej btReject, ev *bt.Op) string) {
	if len(progs) == 0 {
		return
	}
	type shard struct {
		engine string
		lo, hi int
		trace  []byte
		events int
	}
	// batches of about 8000 events per TLC run (a TLC start costs a couple of seconds)
	total := 0
	for _, p := range progs {
		total += len(p) + 1
	}
	per := 400
	if avg := total / len(progs); avg > 0 {
		per = 8000 / avg
	}
	if per < 50 {
		per = 50
	}
	if per > 2000 {
		per = 2000
	}
	var shards []*shard
	for _, e := range engines {
		for lo := 0; lo < len(progs); lo += per {
			hi := lo + per
			if hi > len(progs) {
				hi = len(progs)
			}
			shards = append(shards, &shard{engine: e, lo: lo, hi: hi})
		}
	}
	sem := make(chan struct{}, 14)
	var wg sync.WaitGroup
	var mu sync.Mutex
	var rejects []btReject
	for _, sh := range shards {
		wg.Add(1)
		go func(sh *shard) {
			defer wg.Done()
			sem <- struct{}{}
			defer func() { <-sem }()
			var buf bytes.Buffer
			for i := sh.lo; i < sh.hi; i++ {
				evs, _ := runProgram(sh.engine, i+1, progs[i])
				sh.events += len(evs)
				buf.Write(encodeTrace(evs))
			}
			rj, res, err := validateBt(buf.Bytes())
			if err != nil {
				c.Inconclusive("%s/%s trace validation: %v", label, sh.engine, err)
				return
			}
			_ = res
			c.AddTraces(int64(sh.hi-sh.lo), int64(sh.events))
			mu.Lock()
			for _, r := range rj {
				r.Engine = sh.engine
				rejects = append(rejects, r)
			}
			mu.Unlock()
		}(sh)
	}
	wg.Wait()
	sort.Slice(rejects, func(a, b int) bool {
		if rejects[a].Tr != rejects[b].Tr {
			return rejects[a].Tr < rejects[b].Tr
		}
		return rejects[a].Engine < rejects[b].Engine
	})
	// confirm (bounded: the first 40 distinct rejections are confirmed individually; further ones are counted)
	confirmed := 0
	for n, r := range rejects {
		if n >= 40 {
			break
		}
		prog := progs[r.Tr-1]
		evs, panics := runProgram(r.Engine, 1, prog)
		rj, _, err := validateBt(encodeTrace(evs))
		if err != nil {
			c.Inconclusive("%s/%s confirmation of trace %d: %v", label, r.Engine, r.Tr, err)
			continue
		}
		if len(rj) == 0 {
			c.Unreproduced("%s/%s: rejection of trace %d step %d (%s) did not reproduce", label, r.Engine, r.Tr, r.I, r.Ev)
			continue
		}
		confirmed++
		step := rj[0].I
		var ev *bt.Op
		if step < len(evs) {
			ev = &evs[step]
		}
		id := ""
		if classify != nil {
			id = classify(r.Engine, prog, rj[0], ev)
		}
		what := fmt.Sprintf("%s: engine %s: step %d (%s) of the recorded program is not a behaviour of the specification (%s does not match)", label, r.Engine, step, rj[0].Ev, rj[0].Why)
		c.Violation(id, what, btCase{Kind: "bt-seq", Engine: r.Engine, Program: stripProg(prog), Step: step, Why: rj[0].Why, Event: ev, Panics: panics})
	}
	if len(rejects) > 40 {
		fmt.Printf("  (%d further rejected traces not individually confirmed)\n", len(rejects)-40)
	}
}

// replayBtCase re-runs a stored case; returns true if it still fails.
func replayBtCase(cs btCase) (bool, string) {
	evs, _ := runProgram(cs.Engine, 1, cs.Program)
	rj, res, err := validateBt(encodeTrace(evs))
	if err != nil {
		return false, "inconclusive: " + err.Error()
	}
	_ = res
	if len(rj) == 0 {
		return false, "accepted: the recorded program is a behaviour of the specification"
	}
	b, _ := json.Marshal(evs[rj[0].I])
	return true, fmt.Sprintf("rejected at step %d (%s, %s): %s", rj[0].I, rj[0].Ev, rj[0].Why, b)
}

// ---- programs from TLC (direction spec -> code) ----

// dumpPaths runs a model with DumpEdges and returns the request histories it printed.
func (c *Ctx) dumpPaths(module string, cf cfg, timeout time.Duration, workers int) [][]bt.Op {
	res, err := tlc.Run(tlc.Options{Module: module, Cfg: cf.Text(), Workers: workers, Timeout: timeout, Seed: c.Seed + 1})
	if err != nil || res.ExitCode != 0 {
		c.Inconclusive("TLC %s (edge dump): %v exit=%d %s", module, err, res.ExitCode, res.Tail(10))
		return nil
	}
	var out [][]bt.Op
	for _, p := range res.Tag("PATH") {
		var ops []bt.Op
		if len(p) == 0 {
			continue
		}
		if err := json.Unmarshal(p[0], &ops); err != nil {
			c.Inconclusive("cannot decode a TLC path: %v", err)
			return out
		}
		out = append(out, ops)
	}
	return out
}

// concretise maps the model's short table/parent names to real resource names.
func concretise(progs [][]bt.Op) {
	for _, p := range progs {
		for i := range p {
			if len(p[i].Parent) > 0 && !bytes.HasPrefix(p[i].Parent, []byte("projects/")) {
				p[i].Parent = j.S("projects/p/instances/" + string(p[i].Parent))
			}
			if len(p[i].T) > 0 && !bytes.HasPrefix(p[i].T, []byte("projects/")) {
				parent := "projects/p/instances/p"
				if i2 := bytes.IndexByte(p[i].T, '@'); i2 >= 0 {
					parent = "projects/p/instances/" + string(p[i].T[:i2])
					p[i].T = p[i].T[i2+1:]
				}
				p[i].T = j.S(parent + "/tables/" + string(p[i].T))
			}
			if p[i].Pred != nil {
				p[i].Pred.Normalize()
			}
			if p[i].Filter != nil {
				p[i].Filter.Normalize()
			}
		}
	}
}

func samplePrograms(r *rand.Rand, progs [][]bt.Op, n int) [][]bt.Op {
	if n <= 0 || len(progs) <= n {
		return progs
	}
	idx := r.Perm(len(progs))[:n]
	sort.Ints(idx)
	out := make([][]bt.Op, 0, n)
	for _, i := range idx {
		out = append(out, progs[i])
	}
	return out
}
