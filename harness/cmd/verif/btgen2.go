package main

import (
	"math/rand"

	"verif/harness/internal/bt"
	"verif/harness/internal/j"
)

// ---- regex and filter generators ----

func litSeq(b []byte) bt.Re {
	if len(b) == 1 {
		return bt.Re{K: "lit", B: int(b[0])}
	}
	re := bt.Re{K: "cat"}
	for _, c := range b {
		re.Xs = append(re.Xs, bt.Re{K: "lit", B: int(c)})
	}
	return re
}

func (g gen) anyStar() bt.Re { return bt.Re{K: "star", X: &bt.Re{K: "any"}} }

// regex built around a sample target so that matches actually happen
func (g gen) regex(target []byte) *bt.Re {
	var re bt.Re
	switch x := g.r.Float64(); {
	case x < 0.25 && len(target) > 0:
		re = litSeq(target)
	case x < 0.40 && len(target) > 0: // prefix.*
		n := 1 + g.pick(len(target))
		re = bt.Re{K: "cat", Xs: []bt.Re{litSeq(target[:n]), g.anyStar()}}
	case x < 0.50:
		re = bt.Re{K: "star", X: &bt.Re{K: "dot"}} // .* : any bytes but newline
	case x < 0.58:
		re = g.anyStar()
	case x < 0.68 && len(target) > 0: // alternation
		re = bt.Re{K: "alt", Xs: []bt.Re{litSeq(target), litSeq([]byte("zz"))}}
	case x < 0.76 && len(target) > 0: // class then rest
		re = bt.Re{K: "cat", Xs: []bt.Re{{K: "class", Set: []int{int(target[0]), 0, 255}, Neg: g.chance(0.3)}, g.anyStar()}}
	case x < 0.82 && len(target) > 0: // unanchored-looking: only a prefix literal (must NOT match a longer field)
		re = litSeq(target[:1])
	case x < 0.88:
		re = bt.Re{K: "opt", X: &bt.Re{K: "any"}}
	case x < 0.94:
		re = bt.Re{K: "plus", X: &bt.Re{K: "class", Set: []int{'a', 'q', 'x', 0}, Neg: false}}
	default:
		re = bt.Re{K: "bad", B: g.pick(4)}
	}
	return &re
}

func (g gen) bound() (string, j.B) {
	k := []string{"none", "open", "closed"}[g.pick(3)]
	return k, nil
}

func (g gen) leaf(bad float64) bt.Filter {
	tsChoices := []int64{0, 1000, 2000, 3000, 4000, 5000}
	switch g.pick(17) {
	case 0:
		return bt.Filter{K: "pass", B: !g.chance(bad)}
	case 1:
		return bt.Filter{K: "block", B: !g.chance(bad)}
	case 2:
		return bt.Filter{K: "keyre", Re: g.regex(g.key())}
	case 3:
		return bt.Filter{K: "famre", Re: g.regex(genFams[g.pick(2)])}
	case 4:
		return bt.Filter{K: "qualre", Re: g.regex(g.qual())}
	case 5:
		return bt.Filter{K: "valre", Re: g.regex(g.val())}
	case 6:
		f := bt.Filter{K: "colrange", F: g.fam(0.1)}
		f.Sk, f.Ek = []string{"none", "open", "closed"}[g.pick(3)], []string{"none", "open", "closed"}[g.pick(3)]
		if f.Sk != "none" {
			f.S = genQuals[1+g.pick(len(genQuals)-1)]
		}
		if f.Ek != "none" {
			f.E = genQuals[1+g.pick(len(genQuals)-1)]
		}
		// a bound that is present but empty is a bound (the empty string), not "unset"
		if f.Sk != "none" && g.chance(0.12) {
			f.S = j.B{}
		}
		if f.Ek != "none" && g.chance(0.12) {
			f.E = j.B{}
		}
		return f
	case 7:
		f := bt.Filter{K: "valrange"}
		f.Sk, f.Ek = []string{"none", "open", "closed"}[g.pick(3)], []string{"none", "open", "closed"}[g.pick(3)]
		nonEmpty := []j.B{j.S("x"), j.S("y"), j.S("\x00\xff"), j.S("abc")}
		if f.Sk != "none" {
			f.S = nonEmpty[g.pick(len(nonEmpty))]
		}
		if f.Ek != "none" {
			f.E = nonEmpty[g.pick(len(nonEmpty))]
		}
		if f.Sk != "none" && g.chance(0.12) {
			f.S = j.B{}
		}
		if f.Ek != "none" && g.chance(0.12) {
			f.E = j.B{}
		}
		return f
	case 8:
		f := bt.Filter{K: "tsrange", T0: j.N64(tsChoices[g.pick(len(tsChoices))]), T1: j.N64(tsChoices[g.pick(len(tsChoices))])}
		if g.chance(bad) {
			f.T0 = 1500
		}
		if g.chance(bad / 2) {
			f.T1 = 2001
		}
		return f
	case 9:
		n := g.pick(4)
		if g.chance(bad) {
			n = -1 - g.pick(3)
		}
		return bt.Filter{K: "rowlimit", N: n}
	case 10:
		n := g.pick(4)
		if g.chance(bad) {
			n = -1 - g.pick(3)
		}
		return bt.Filter{K: "rowoffset", N: n}
	case 11:
		n := g.pick(3)
		if g.chance(bad) {
			n = -1
		}
		return bt.Filter{K: "collimit", N: n}
	case 12:
		return bt.Filter{K: "strip"}
	case 13:
		return bt.Filter{K: "label", L: []j.B{j.S("l"), j.S("lab-1")}[g.pick(2)]}
	case 14:
		if g.chance(bad) {
			return bt.Filter{K: "badsample", Pn: []int{0, 100, 150, -10}[g.pick(4)]}
		}
		return bt.Filter{K: "pass", B: true}
	case 15:
		return bt.Filter{K: "qualre", Re: g.regex(g.qual())}
	}
	return bt.Filter{K: "valre", Re: g.regex(g.val())}
}

func (g gen) filter(depth int, bad float64) bt.Filter {
	if depth <= 0 || g.chance(0.35) {
		return g.leaf(bad)
	}
	switch g.pick(3) {
	case 0, 1:
		k := []string{"chain", "inter"}[g.pick(2)]
		n := 2 + g.pick(2)
		if g.chance(bad / 2) {
			n = g.pick(2)
		}
		f := bt.Filter{K: k}
		for i := 0; i < n; i++ {
			f.Fs = append(f.Fs, g.filter(depth-1, bad))
		}
		return f
	}
	p := g.filter(depth-1, bad)
	f := bt.Filter{K: "cond", P: &p}
	if g.chance(0.8) {
		t := g.filter(depth-1, bad)
		f.Tb = &t
	}
	if g.chance(0.8) {
		e := g.filter(depth-1, bad)
		f.Fb = &e
	}
	return f
}

// a few rows with several families, columns and versions
func (g gen) populate(t j.B, nrows int, now int64) []bt.Op {
	var out []bt.Op
	for i := 0; i < nrows; i++ {
		k := g.key()
		var ms []bt.Mut
		n := 2 + g.pick(5)
		for m := 0; m < n; m++ {
			ms = append(ms, bt.Mut{M: "set", F: genFams[g.pick(2)], Q: g.qual(), Ts: j.N64(goodTs[g.pick(6)]), V: g.val()})
		}
		out = append(out, bt.Op{Ev: "MutateRow", T: t, K: k, Muts: ms, Now: j.N64(now)})
	}
	return out
}

// C12: CheckAndMutateRow; each request is preceded by a read of the same row through the same filter.
func genCamProgram(r *rand.Rand) []bt.Op {
	g := gen{r}
	prog := []bt.Op{createOp(btTable)}
	clock := int64(6000)
	prog = append(prog, g.populate(btTable, 2+g.pick(3), clock)...)
	n := 10 + g.pick(14)
	for len(prog) < n {
		clock += 1000
		k := g.key()
		if g.chance(0.7) {
			// prefer a row that exists
			for _, op := range prog {
				if op.Ev == "MutateRow" && g.chance(0.5) {
					k = op.K
				}
			}
		}
		if g.chance(0.15) {
			prog = append(prog, bt.Op{Ev: "MutateRow", T: btTable, K: k, Muts: g.muts(3, 0.1), Now: j.N64(clock)})
			continue
		}
		op := bt.Op{Ev: "CheckAndMutate", T: btTable, K: k, Now: j.N64(clock)}
		if g.chance(0.85) {
			f := g.filter(2, 0.12)
			op.HasPred, op.Pred = true, &f
			ff := f
			prog = append(prog, bt.Op{Ev: "ReadRows", T: btTable, Rs: bt.RowSet{Keys: []j.B{k}}, HasFilter: true, Filter: &ff})
		}
		if g.chance(0.8) {
			op.Tm = g.muts(3, 0.15)
		}
		if g.chance(0.8) {
			op.Fm = g.muts(3, 0.15)
		}
		prog = append(prog, op)
	}
	return prog
}

func (g gen) rule(depth int) bt.Rule {
	if depth <= 0 || g.chance(0.5) {
		switch g.pick(5) {
		case 0:
			return bt.Rule{T: "maxver", N: 1 + g.pick(3)}
		case 1:
			return bt.Rule{T: "maxage", Us: j.N64([]int64{0, 1000, 1000000, 2000000, 1500, 3600000000}[g.pick(6)])}
		case 2:
			return bt.Rule{T: "none"}
		case 3:
			return bt.Rule{T: "maxver", N: g.pick(2)}
		}
		return bt.Rule{T: "maxage", Us: j.N64(int64(1+g.pick(4)) * 1000000)}
	}
	k := "union"
	if g.chance(0.25) {
		k = "inter"
	}
	ru := bt.Rule{T: k}
	n := 1 + g.pick(3)
	for i := 0; i < n; i++ {
		ru.Rules = append(ru.Rules, g.rule(depth-1))
	}
	return ru
}

// C16 (policy): rule trees, cells around the cut-off, forced passes with a scripted clock.
func genGcProgram(r *rand.Rand) []bt.Op {
	g := gen{r}
	now := int64(10_000_000) // 10 s
	mk := func(rule bt.Rule) bt.Rule {
		if rule.T == "none" && len(rule.Rules) == 0 {
			return rule
		}
		return rule
	}
	prog := []bt.Op{{Ev: "CreateTable", T: btTable, Parent: btParent, Fams: []bt.FamDef{{F: j.S("f"), Rule: mk(g.rule(2))}, {F: j.S("g"), Rule: mk(g.rule(1))}}},
		{Ev: "CreateTable", T: btTable2, Parent: btParent, Fams: []bt.FamDef{{F: j.S("f"), Rule: bt.Rule{T: "none"}}}}}
	stamps := func() int64 {
		base := now - int64(g.pick(5))*1_000_000
		return base + int64(g.pick(3)-1)*1000
	}
	n := 10 + g.pick(16)
	for len(prog) < n {
		switch x := g.r.Float64(); {
		case x < 0.6:
			var ms []bt.Mut
			for i := 0; i < 1+g.pick(4); i++ {
				ms = append(ms, bt.Mut{M: "set", F: genFams[g.pick(2)], Q: genQuals[g.pick(2)], Ts: j.N64(stamps()), V: g.val()})
			}
			prog = append(prog, bt.Op{Ev: "MutateRow", T: btTable, K: genKeys[g.pick(4)], Muts: ms, Now: j.N64(now)})
		case x < 0.68:
			prog = append(prog, bt.Op{Ev: "MutateRow", T: btTable2, K: genKeys[g.pick(4)], Now: j.N64(now),
				Muts: []bt.Mut{{M: "set", F: j.S("f"), Q: j.S("q"), Ts: j.N64(stamps()), V: g.val()}, {M: "set", F: j.S("f"), Q: j.S("q"), Ts: 0, V: g.val()}}})
		case x < 0.75:
			prog = append(prog, bt.Op{Ev: "ModifyFamilies", T: btTable, Mods: []bt.Mod{{K: "update", F: genFams[g.pick(2)], Rule: g.rule(2)}}})
		default:
			if g.chance(0.5) {
				now += int64(g.pick(3)) * 500_000
			}
			t := btTable
			if g.chance(0.1) {
				t = btTable2
			}
			ev := "GcPass"
			idle := false
			if g.chance(0.35) {
				ev, idle = "GcAuto", g.chance(0.5)
			}
			prog = append(prog, bt.Op{Ev: ev, Idle: idle, T: t, Now: j.N64(now + int64(g.pick(2)*g.pick(1000)))})
		}
	}
	return prog
}

// C14: admin requests interleaved with data requests over several tables and parents.
func genAdminProgram(r *rand.Rand) []bt.Op {
	g := gen{r}
	parents := []j.B{j.S("projects/p/instances/i"), j.S("projects/p/instances/i2")}
	tables := []j.B{j.S("projects/p/instances/i/tables/t1"), j.S("projects/p/instances/i/tables/t2"), j.S("projects/p/instances/i2/tables/t1"), j.S("projects/p/instances/i/tables/t11")}
	parentOf := func(t j.B) j.B {
		if string(t) == "projects/p/instances/i2/tables/t1" {
			return parents[1]
		}
		return parents[0]
	}
	fams := []j.B{j.S("f"), j.S("g"), j.S("h")}
	keys := []j.B{j.S("p"), j.S("p\xff"), j.S("p\xff\x00"), j.S("p\xff\xff"), j.S("q"), j.S("pq"), j.S("o\xff")}
	prefixes := []j.B{j.S("p"), j.S("p\xff"), j.S("q"), j.S("pq"), j.S("p\xff\x00"), j.S("o"), j.S("\xff"), j.S("p\xff\xff")}
	var prog []bt.Op
	n := 14 + g.pick(26)
	for len(prog) < n {
		t := tables[g.pick(len(tables))]
		if g.chance(0.5) {
			t = tables[0]
		}
		switch x := g.r.Float64(); {
		case x < 0.14:
			op := bt.Op{Ev: "CreateTable", T: t, Parent: parentOf(t)}
			for _, f := range fams[:g.pick(3)+1] {
				op.Fams = append(op.Fams, bt.FamDef{F: f, Rule: g.rule(1)})
			}
			if g.chance(0.1) {
				op.Fams = nil
			}
			prog = append(prog, op)
		case x < 0.20:
			prog = append(prog, bt.Op{Ev: "DeleteTable", T: t})
		case x < 0.24:
			prog = append(prog, bt.Op{Ev: "GetTable", T: t})
		case x < 0.25:
			prog = append(prog, bt.Op{Ev: "GenerateToken", T: t})
		case x < 0.26:
			prog = append(prog, bt.Op{Ev: "CheckConsistency", T: t, TokFor: tables[g.pick(len(tables))], Genuine: g.chance(0.8)})
		case x < 0.31:
			p := parents[g.pick(2)]
			if g.chance(0.15) {
				p = j.S("projects/p/instances/none")
			}
			prog = append(prog, bt.Op{Ev: "ListTables", Parent: p})
		case x < 0.45:
			op := bt.Op{Ev: "ModifyFamilies", T: t}
			for i := 0; i < 1+g.pick(3); i++ {
				m := bt.Mod{K: []string{"create", "update", "drop", "drop", "create"}[g.pick(5)], F: fams[g.pick(3)], Rule: g.rule(1)}
				if g.chance(0.03) {
					m.K = "none"
				}
				op.Mods = append(op.Mods, m)
			}
			prog = append(prog, op)
		case x < 0.58:
			op := bt.Op{Ev: "DropRowRange", T: t}
			switch y := g.r.Float64(); {
			case y < 0.2:
				op.All = true
			case y < 0.95:
				op.HasPrefix, op.Prefix = true, prefixes[g.pick(len(prefixes))]
			}
			prog = append(prog, op)
		case x < 0.92:
			var ms []bt.Mut
			for i := 0; i < 1+g.pick(3); i++ {
				ms = append(ms, bt.Mut{M: "set", F: fams[g.pick(3)], Q: genQuals[g.pick(2)], Ts: j.N64(goodTs[g.pick(4)]), V: g.val()})
			}
			prog = append(prog, bt.Op{Ev: "MutateRow", T: t, K: keys[g.pick(len(keys))], Muts: ms, Now: 5000})
		case x < 0.96:
			prog = append(prog, bt.Op{Ev: "ReadModifyWrite", T: t, K: keys[g.pick(len(keys))], Now: 5000, Rules: []bt.RmwRule{{K: "append", F: fams[g.pick(3)], Q: j.S("q"), V: j.S("z")}}})
		default:
			prog = append(prog, bt.Op{Ev: "ReadRows", T: t})
		}
	}
	return prog
}

// genPrefixDropProgram: DropRowRange by prefix on a table whose keys sit on every side of the prefixes' boundaries:
// prefixes ending in 0xff (whose "next key" needs a carry), consisting only of 0xff bytes (which have no successor),
// and the keys right before / behind them. Each drop is followed by the read-back of the whole table (deterministic:
// every program of this kind exercises every prefix once, in a seeded order).
func genPrefixDropProgram(r *rand.Rand) []bt.Op {
	keys := []string{"a", "a\xfe", "a\xff", "a\xff\x00", "a\xff\xff", "a\xffz", "b", "b\x00", "\xfe\xff", "\xfe\xffq", "\xff", "\xff\x00", "\xff\xff", "\xff\xff\xff"}
	prefixes := []string{"a\xff", "a\xff\xff", "\xfe\xff", "\xff", "\xff\xff", "a", "b", "a\xfe"}
	r.Shuffle(len(prefixes), func(a, b int) { prefixes[a], prefixes[b] = prefixes[b], prefixes[a] })
	fill := func() bt.Op {
		op := bt.Op{Ev: "MutateRows", T: btTable, Now: 5000}
		for _, k := range keys {
			op.Entries = append(op.Entries, bt.Entry{K: j.S(k), Muts: []bt.Mut{{M: "set", F: j.S("f"), Q: j.S("q"), Ts: 1000, V: j.S("v")}}})
		}
		return op
	}
	prog := []bt.Op{createOp(btTable), fill()}
	for i, p := range prefixes {
		prog = append(prog, bt.Op{Ev: "DropRowRange", T: btTable, HasPrefix: true, Prefix: j.S(p)})
		if i%3 == 2 {
			prog = append(prog, fill()) // restore what the drops removed
		}
	}
	return prog
}
