package main

import (
	"bytes"
	"fmt"
	"math/rand"
	"sort"

	"verif/harness/internal/bt"
	"verif/harness/internal/btconc"
	"verif/harness/internal/j"
)

func init() { checks["C18"] = checkC18 }

// a table whose full scan spans several response messages: nrows rows of ncells cells (the scan gives up the
// table lock every > 1024 cells)
func scanSetup(nrows, ncells int) []bt.Op {
	ops := []bt.Op{{Ev: "CreateTable", T: concTable, Parent: btParent, Fams: []bt.FamDef{{F: j.S("f"), Rule: bt.Rule{T: "none"}}, {F: j.S("g"), Rule: bt.Rule{T: "none"}}}}}
	op := bt.Op{Ev: "MutateRows", T: concTable, Now: j.N64(concNow)}
	for i := 1; i <= nrows; i++ {
		var ms []bt.Mut
		for c := 0; c < ncells; c++ {
			ms = append(ms, bt.Mut{M: "set", F: j.S("g"), Q: j.S(fmt.Sprintf("c%02d", c)), Ts: 0, V: j.S("v")})
		}
		op.Entries = append(op.Entries, bt.Entry{K: rowKey(i), Muts: ms})
	}
	return append(ops, op)
}

// C18 Bigtable: scans stay sane while the table is being written (leveldb engines).
func checkC18(c *Ctx) {
	c.rule = "cases = a multi-message ReadRows scan (72 rows x 30 cells: the scan gives up the table lock after every 1025 cells, i.e. twice before its last message) interleaved with concurrent writers: (0) targeted runs: for tables with fixed-width keys and a message boundary exactly after 1024 rows, with hierarchical keys (rows whose keys extend the key the message ended on) and for scans over several disjoint ranges, the scan is driven into each of its lock-free windows and there the row it last streamed and the next one are deleted, a row is inserted right behind its position and rows before and after are rewritten; (a) schedules = behaviours of the BtConc model for the mixes scan/scan2 (scan + two writers: two-mutation write, row delete, increment) mapped so that the writers touch rows before, at and after the scan position, executed through the hook gates (the scan parks in its lock-free windows), including DropRowRange(all) issued inside a window; (b) free-running runs with 8 writers; leveldb-mem and leveldb-disk engines; each recorded run validated by TLC (BtConcTrace: keys strictly ascending, every returned row equals a value that row had between scan start and end, untouched rows exactly as stored, status OK, final read-back); distinct = distinct (mix, schedule, engine); non-trivial = every case"
	r := rand.New(rand.NewSource(c.Seed))
	c.modelCheckConc([]string{"scan", "scan2"}, nil)
	nsim, keep := 400, 24
	if !c.Quick() {
		nsim, keep = 20000, 900
	}
	var scheds []concSched
	for _, mix := range []string{"scan", "scan2"} {
		ss := c.schedulesConc(mix, false, false, nsim, keep, r)
		c.Extra("schedules_"+mix, len(ss))
		scheds = append(scheds, ss...)
	}
	engines := []string{"mem", "disk"}
	const nrows, ncells = 72, 30
	// abstract rows 1,2,3 -> rows before the first window, between the windows, after the last window
	concrete := map[int]int{1: 10, 2: 45, 3: 68}
	var jobs []concJob
	for n, s := range scheds {
		kinds, rows := mixKinds[s.Mix], mixRows[s.Mix]
		var procs []btconc.Proc
		for i, k := range kinds {
			row := concrete[rows[i]]
			if r.Intn(3) == 0 {
				row = 1 + r.Intn(nrows) // any position, including exactly at the scan position
			}
			procs = append(procs, btconc.Proc{Name: procName(i + 1), Op: concOp(k, rowKey(row), procName(i+1))})
		}
		// the model's scan takes about twice as many steps as the real one has gates: stretch the writers' steps
		var sched []string
		for _, p := range s.Steps {
			sched = append(sched, procName(p))
		}
		jb := concJob{engine: engines[n%2], setup: scanSetup(nrows, ncells), procs: procs, sched: sched, label: fmt.Sprintf("mix %s, schedule %v", s.Mix, s.Steps)}
		if n%7 == 3 { // clear the whole table while the scan is running (it lands in one of the scan's windows)
			jb.procs = append(jb.procs, btconc.Proc{Name: "p9", Op: bt.Op{Ev: "DropRowRange", T: concTable, All: true, Now: j.N64(concNow)}})
			pos := len(sched) / 2
			ins := []string{"p9", "p9", "p9"}
			jb.sched = append(append(append([]string{}, sched[:pos]...), ins...), sched[pos:]...)
			jb.label += fmt.Sprintf(", DropRowRange(all) from step %d", pos)
		}
		jobs = append(jobs, jb)
	}
	if len(scheds) > 0 {
		c.Sample(map[string]interface{}{"source": "behaviour of the BtConc model (scan mix) used as a schedule", "schedule": scheds[0]})
	}
	nStress := 8
	if !c.Quick() {
		nStress = 200
	}
	kinds := []string{"mut2", "del", "incr", "mut2", "incr", "del", "mrows", "cas"}
	for i := 0; i < nStress; i++ {
		procs := []btconc.Proc{{Name: "p1", Op: concOp("scan", nil, "p1")}}
		for p := 0; p < 8; p++ {
			procs = append(procs, btconc.Proc{Name: procName(p + 2), Op: concOp(kinds[(p+i)%len(kinds)], rowKey(1+r.Intn(nrows)), procName(p+2))})
		}
		jobs = append(jobs, concJob{engine: engines[i%2], setup: scanSetup(nrows, ncells), procs: procs, opt: btconc.Options{Free: true}, label: fmt.Sprintf("free-running scan + 8 writers %d", i)})
	}
	c.Extra("stress_runs", nStress)
	c.Extra("engines", engines)
	tj := targetedScanJobs(r, engines, c.Quick())
	c.Extra("targeted_window_runs", len(tj))
	if len(tj) > 0 {
		c.Sample(map[string]interface{}{"source": "targeted run: the scan is driven into each lock-free window and the rows around its position are written there", "label": tj[0].label, "schedule": tj[0].sched})
	}
	jobs = append(jobs, tj...)
	c.runConc("C18", jobs)
	c.Assume("TLC and the Json module are trusted; hooks are add-only one-liners under the build tag verif; the btree engine is out of scope (the repository documents that it does not offer this)")
}

// ---- targeted runs: drive the scan into each window, write around its position there ----

type scanRow struct {
	k      j.B
	ncells int
}

// scanScenario: a table (rows in key order), the scan request, and the rows the scan visits in order
type scanScenario struct {
	name    string
	rows    []scanRow
	rs      bt.RowSet
	visited []scanRow
	extend  string // suffix that makes a new key sorting right behind an existing one
}

func (sc scanScenario) setup() []bt.Op {
	ops := []bt.Op{{Ev: "CreateTable", T: concTable, Parent: btParent, Fams: []bt.FamDef{{F: j.S("f"), Rule: bt.Rule{T: "none"}}, {F: j.S("g"), Rule: bt.Rule{T: "none"}}}}}
	op := bt.Op{Ev: "MutateRows", T: concTable, Now: j.N64(concNow)}
	for _, r := range sc.rows {
		var ms []bt.Mut
		for c := 0; c < r.ncells; c++ {
			ms = append(ms, bt.Mut{M: "set", F: j.S("g"), Q: j.S(fmt.Sprintf("c%02d", c)), Ts: 0, V: j.S("v")})
		}
		op.Entries = append(op.Entries, bt.Entry{K: r.k, Muts: ms})
	}
	return append(ops, op)
}

// boundaries: indices into visited after which the scan sends a message and gives up the lock (> 1024 chunks)
func (sc scanScenario) boundaries() []int {
	var out []int
	chunks := 0
	for i, r := range sc.visited {
		chunks += r.ncells
		if chunks > 1024 && i < len(sc.visited)-1 {
			out = append(out, i)
			chunks = 0
		}
	}
	return out
}

func scanScenarios() []scanScenario {
	var out []scanScenario
	// A: fixed-width keys, the first message boundary falls exactly after 1024 rows
	a := scanScenario{name: "boundary after exactly 1024 rows", extend: "x"}
	for i := 1; i <= 1064; i++ {
		n := 1
		if i == 1024 {
			n = 2
		}
		a.rows = append(a.rows, scanRow{rowKey(i), n})
	}
	a.visited = a.rows
	out = append(out, a)
	// B: hierarchical keys: u07, u07#a, u070 -- keys that extend the key a message may end on
	b := scanScenario{name: "hierarchical keys", extend: "#0"}
	for i := 1; i <= 40; i++ {
		for _, sfx := range []string{"", "#a", "0"} {
			b.rows = append(b.rows, scanRow{j.S(fmt.Sprintf("u%02d%s", i, sfx)), 30})
		}
	}
	sort.Slice(b.rows, func(x, y int) bool { return bytes.Compare(b.rows[x].k, b.rows[y].k) < 0 })
	b.visited = b.rows
	out = append(out, b)
	// C: a scan over three disjoint ranges
	cs := scanScenario{name: "three disjoint ranges", extend: "x"}
	for i := 1; i <= 96; i++ {
		cs.rows = append(cs.rows, scanRow{rowKey(i), 30})
		if i <= 30 || (i > 34 && i <= 66) || i >= 70 {
			cs.visited = append(cs.visited, scanRow{rowKey(i), 30})
		}
	}
	cs.rs = bt.RowSet{Ranges: []bt.Range{{Sk: "closed", S: rowKey(1), Ek: "closed", E: rowKey(30)}, {Sk: "open", S: rowKey(34), Ek: "closed", E: rowKey(66)}, {Sk: "closed", S: rowKey(70), Ek: "none"}}}
	out = append(out, cs)
	return out
}

func targetedScanJobs(r *rand.Rand, engines []string, quick bool) []concJob {
	var jobs []concJob
	variants := 4
	for si, sc := range scanScenarios() {
		bs := sc.boundaries()
		for v := 0; v < variants; v++ {
			for ei, eng := range engines {
				if quick && (si+v+ei)%2 == 1 { // the quick tier runs every variant of every scenario on one of the two engines
					continue
				}
				procs := []btconc.Proc{{Name: "p1", Op: bt.Op{Ev: "ReadRows", T: concTable, Rs: sc.rs, Now: j.N64(concNow)}}}
				var sched []string
				np := 1
				add := func(op bt.Op) {
					np++
					procs = append(procs, btconc.Proc{Name: procName(np), Op: op})
					sched = append(sched, procName(np)+"!")
				}
				at := func(i int) (j.B, bool) {
					if i < 0 || i >= len(sc.visited) {
						return nil, false
					}
					return sc.visited[i].k, true
				}
				for _, b := range bs {
					sched = append(sched, "p1>window")
					last, _ := at(b)
					if v == 0 || v == 1 {
						add(concOp("del", last, "w")) // the row the message ended on
					}
					if v == 0 || v == 2 {
						if k, ok := at(b + 1); ok {
							add(concOp("del", k, "w")) // the row the scan would read next
						}
						add(concOp("mut2", j.S(string(last)+sc.extend), fmt.Sprintf("new%d", b))) // a new row right behind the scan position
					}
					if v == 3 {
						// a row further on is deleted, and a SECOND scan runs from start to end while the first one is still
						// parked in its window: it must not see the deleted row (nor anything else that never existed during it)
						if k, ok := at(b + 3); ok {
							add(concOp("del", k, "w"))
						}
						add(bt.Op{Ev: "ReadRows", T: concTable, Rs: sc.rs, Now: j.N64(concNow)})
						add(concOp("mut2", last, fmt.Sprintf("at%d", b)))
						add(bt.Op{Ev: "ReadRows", T: concTable, Rs: sc.rs, Now: j.N64(concNow)})
					}
					if v == 0 {
						if k, ok := at(b + 2); ok {
							add(concOp("mut2", k, fmt.Sprintf("after%d", b)))
						}
						if k, ok := at(b - 1); ok {
							add(concOp("mut2", k, fmt.Sprintf("before%d", b)))
						}
					}
				}
				jobs = append(jobs, concJob{engine: eng, setup: sc.setup(), procs: procs, sched: sched,
					label: fmt.Sprintf("targeted: %s, variant %d, windows after visited rows %v", sc.name, v, bs)})
			}
		}
	}
	return jobs
}
