SPECIFICATION Spec
INVARIANT InvGen
POSTCONDITION Consumed
CHECK_DEADLOCK FALSE
