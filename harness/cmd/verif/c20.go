package main

import (
	"bytes"
	"context"
	"encoding/json"
	"fmt"
	"github.com/fullstorydev/emulators/storage/gcsutil"
	"io"
	"math/rand"
	"net/http"
	"net/url"
	"os"
	"os/exec"
	"strconv"
	"strings"
	"sync"
	"time"

	btapb "cloud.google.com/go/bigtable/admin/apiv2/adminpb"
	btpb "cloud.google.com/go/bigtable/apiv2/bigtablepb"
	"google.golang.org/grpc/codes"
	"google.golang.org/grpc/status"
	"google.golang.org/protobuf/encoding/prototext"
	"google.golang.org/protobuf/proto"
	"google.golang.org/protobuf/types/known/durationpb"

	"verif/harness/internal/bt"
	"verif/harness/internal/gcs"
	"verif/harness/internal/j"
	"verif/harness/internal/tlc"
)

func init() { checks["C20"] = checkC20 }

type subResp struct {
	Code int `json:"code"`
	Body j.B `json:"body"`
}

// robEvent is one perturbed request with what came back and the probe after it (spec/robust/Robust.tla).
type robEvent struct {
	N          int       `json:"n"`
	Class      string    `json:"class"`
	Sys        string    `json:"sys"`
	Ev         string    `json:"ev"`
	Kind       string    `json:"kind"` // status | panic | abort | timeout
	Code       int       `json:"code"`
	HasBody    bool      `json:"hasBody"`
	Api        bool      `json:"api"`
	ErrJSON    bool      `json:"errJSON"`
	ProbeWrite bool      `json:"probeWrite"`
	ProbeRead  bool      `json:"probeRead"`
	DataIntact bool      `json:"dataIntact"`
	Parts      []subResp `json:"parts"`
	Alone      []subResp `json:"alone"`
	Detail     string    `json:"detail,omitempty"`
	Engine     string    `json:"engine,omitempty"`
	Req        string    `json:"req,omitempty"`     // the request as sent (for the reader of a replay file; not read by the specification)
	SubSeed    int64     `json:"subseed,omitempty"` // seed and size of the run this event belongs to: the replayer re-executes that run
	NFuzz      int       `json:"nfuzz,omitempty"`
	Idx        int       `json:"idx,omitempty"` // position within that run
}

// ---------------------------------------------------------------- Bigtable

type btPert struct {
	class string
	do    func(s *bt.Server, ctx context.Context) error
}

const keepTable = "projects/p/instances/i/tables/keep"

func drainRead(st btpb.Bigtable_ReadRowsClient, err error) error {
	if err != nil {
		return err
	}
	for {
		_, err := st.Recv()
		if err == io.EOF {
			return nil
		}
		if err != nil {
			return err
		}
	}
}

func btPerturbations() []btPert {
	T := keepTable
	missing := "projects/p/instances/i/tables/missing"
	set := func(f string, ts int64) *btpb.Mutation {
		return &btpb.Mutation{Mutation: &btpb.Mutation_SetCell_{SetCell: &btpb.Mutation_SetCell{FamilyName: f, ColumnQualifier: []byte("q"), TimestampMicros: ts, Value: []byte("v")}}}
	}
	rr := func(s *bt.Server, ctx context.Context, req *btpb.ReadRowsRequest) error {
		st, err := s.Data.ReadRows(ctx, req)
		return drainRead(st, err)
	}
	flt := func(f *btpb.RowFilter) func(*bt.Server, context.Context) error {
		return func(s *bt.Server, ctx context.Context) error {
			return rr(s, ctx, &btpb.ReadRowsRequest{TableName: T, Filter: f})
		}
	}
	var out []btPert
	add := func(class string, do func(*bt.Server, context.Context) error) { out = append(out, btPert{class, do}) }
	// missing table, for every RPC
	add("missing-table/MutateRow", func(s *bt.Server, ctx context.Context) error {
		_, err := s.Data.MutateRow(ctx, &btpb.MutateRowRequest{TableName: missing, RowKey: []byte("a"), Mutations: []*btpb.Mutation{set("f", 1000)}})
		return err
	})
	add("missing-table/ReadRows", func(s *bt.Server, ctx context.Context) error {
		return rr(s, ctx, &btpb.ReadRowsRequest{TableName: missing})
	})
	add("missing-table/SampleRowKeys", func(s *bt.Server, ctx context.Context) error {
		st, err := s.Data.SampleRowKeys(ctx, &btpb.SampleRowKeysRequest{TableName: missing})
		if err == nil {
			_, err = st.Recv()
		}
		return err
	})
	add("missing-table/CheckAndMutateRow", func(s *bt.Server, ctx context.Context) error {
		_, err := s.Data.CheckAndMutateRow(ctx, &btpb.CheckAndMutateRowRequest{TableName: missing, RowKey: []byte("a")})
		return err
	})
	add("missing-table/ReadModifyWriteRow", func(s *bt.Server, ctx context.Context) error {
		_, err := s.Data.ReadModifyWriteRow(ctx, &btpb.ReadModifyWriteRowRequest{TableName: missing, RowKey: []byte("a")})
		return err
	})
	add("missing-table/GetTable", func(s *bt.Server, ctx context.Context) error {
		_, err := s.Admin.GetTable(ctx, &btapb.GetTableRequest{Name: missing})
		return err
	})
	add("missing-table/DeleteTable", func(s *bt.Server, ctx context.Context) error {
		_, err := s.Admin.DeleteTable(ctx, &btapb.DeleteTableRequest{Name: missing})
		return err
	})
	add("missing-table/ModifyColumnFamilies", func(s *bt.Server, ctx context.Context) error {
		_, err := s.Admin.ModifyColumnFamilies(ctx, &btapb.ModifyColumnFamiliesRequest{Name: missing})
		return err
	})
	add("missing-table/DropRowRange", func(s *bt.Server, ctx context.Context) error {
		_, err := s.Admin.DropRowRange(ctx, &btapb.DropRowRangeRequest{Name: missing})
		return err
	})
	add("missing-table/GenerateConsistencyToken", func(s *bt.Server, ctx context.Context) error {
		_, err := s.Admin.GenerateConsistencyToken(ctx, &btapb.GenerateConsistencyTokenRequest{Name: missing})
		return err
	})
	add("missing-table/CheckConsistency", func(s *bt.Server, ctx context.Context) error {
		_, err := s.Admin.CheckConsistency(ctx, &btapb.CheckConsistencyRequest{Name: missing, ConsistencyToken: "x"})
		return err
	})
	add("bad-token/CheckConsistency", func(s *bt.Server, ctx context.Context) error {
		_, err := s.Admin.CheckConsistency(ctx, &btapb.CheckConsistencyRequest{Name: T, ConsistencyToken: "nope"})
		return err
	})
	// nil sub-messages / unset oneofs
	add("nil-mutation/MutateRow", func(s *bt.Server, ctx context.Context) error {
		_, err := s.Data.MutateRow(ctx, &btpb.MutateRowRequest{TableName: T, RowKey: []byte("z"), Mutations: []*btpb.Mutation{{}}})
		return err
	})
	add("nil-setcell/MutateRow", func(s *bt.Server, ctx context.Context) error {
		_, err := s.Data.MutateRow(ctx, &btpb.MutateRowRequest{TableName: T, RowKey: []byte("z"), Mutations: []*btpb.Mutation{{Mutation: &btpb.Mutation_SetCell_{}}}})
		return err
	})
	add("nil-deletefromcolumn/MutateRow", func(s *bt.Server, ctx context.Context) error {
		_, err := s.Data.MutateRow(ctx, &btpb.MutateRowRequest{TableName: T, RowKey: []byte("z"), Mutations: []*btpb.Mutation{{Mutation: &btpb.Mutation_DeleteFromColumn_{}}}})
		return err
	})
	add("nil-deletefromfamily/MutateRow", func(s *bt.Server, ctx context.Context) error {
		_, err := s.Data.MutateRow(ctx, &btpb.MutateRowRequest{TableName: T, RowKey: []byte("z"), Mutations: []*btpb.Mutation{{Mutation: &btpb.Mutation_DeleteFromFamily_{}}}})
		return err
	})
	add("nil-entry/MutateRows", func(s *bt.Server, ctx context.Context) error {
		st, err := s.Data.MutateRows(ctx, &btpb.MutateRowsRequest{TableName: T, Entries: []*btpb.MutateRowsRequest_Entry{{RowKey: []byte("z"), Mutations: []*btpb.Mutation{{}}}}})
		if err == nil {
			_, err = st.Recv()
		}
		return err
	})
	add("nil-rule/ReadModifyWriteRow", func(s *bt.Server, ctx context.Context) error {
		_, err := s.Data.ReadModifyWriteRow(ctx, &btpb.ReadModifyWriteRowRequest{TableName: T, RowKey: []byte("z"), Rules: []*btpb.ReadModifyWriteRule{{FamilyName: "f"}}})
		return err
	})
	add("empty-key/MutateRow", func(s *bt.Server, ctx context.Context) error {
		_, err := s.Data.MutateRow(ctx, &btpb.MutateRowRequest{TableName: T, Mutations: []*btpb.Mutation{set("nofamily", 1000)}})
		return err
	})
	// filters: nil / malformed trees, negative and huge numbers
	add("filter/empty-oneof", flt(&btpb.RowFilter{}))
	add("filter/chain-nil-members", flt(&btpb.RowFilter{Filter: &btpb.RowFilter_Chain_{Chain: &btpb.RowFilter_Chain{Filters: []*btpb.RowFilter{nil, nil}}}}))
	add("filter/chain-nil", flt(&btpb.RowFilter{Filter: &btpb.RowFilter_Chain_{}}))
	add("filter/interleave-nil", flt(&btpb.RowFilter{Filter: &btpb.RowFilter_Interleave_{}}))
	add("filter/interleave-nil-members", flt(&btpb.RowFilter{Filter: &btpb.RowFilter_Interleave_{Interleave: &btpb.RowFilter_Interleave{Filters: []*btpb.RowFilter{nil, {}}}}}))
	add("filter/condition-nil", flt(&btpb.RowFilter{Filter: &btpb.RowFilter_Condition_{}}))
	add("filter/condition-nil-predicate", flt(&btpb.RowFilter{Filter: &btpb.RowFilter_Condition_{Condition: &btpb.RowFilter_Condition{TrueFilter: &btpb.RowFilter{Filter: &btpb.RowFilter_PassAllFilter{PassAllFilter: true}}}}}))
	add("filter/column-range-nil", flt(&btpb.RowFilter{Filter: &btpb.RowFilter_ColumnRangeFilter{}}))
	add("filter/value-range-nil", flt(&btpb.RowFilter{Filter: &btpb.RowFilter_ValueRangeFilter{}}))
	add("filter/timestamp-range-nil", flt(&btpb.RowFilter{Filter: &btpb.RowFilter_TimestampRangeFilter{}}))
	for _, n := range []int32{-1, -2147483648, 2147483647} {
		n := n
		add(fmt.Sprintf("filter/cells-per-row-limit=%d", n), flt(&btpb.RowFilter{Filter: &btpb.RowFilter_CellsPerRowLimitFilter{CellsPerRowLimitFilter: n}}))
		add(fmt.Sprintf("filter/cells-per-row-offset=%d", n), flt(&btpb.RowFilter{Filter: &btpb.RowFilter_CellsPerRowOffsetFilter{CellsPerRowOffsetFilter: n}}))
		add(fmt.Sprintf("filter/cells-per-column-limit=%d", n), flt(&btpb.RowFilter{Filter: &btpb.RowFilter_CellsPerColumnLimitFilter{CellsPerColumnLimitFilter: n}}))
	}
	add("filter/bad-regex", flt(&btpb.RowFilter{Filter: &btpb.RowFilter_RowKeyRegexFilter{RowKeyRegexFilter: []byte("(((")}}))
	add("filter/huge-regex-repeat", flt(&btpb.RowFilter{Filter: &btpb.RowFilter_ValueRegexFilter{ValueRegexFilter: []byte("a{100000}")}}))
	add("filter/sample-nan", flt(&btpb.RowFilter{Filter: &btpb.RowFilter_RowSampleFilter{RowSampleFilter: 2.5}}))
	add("filter/label-invalid", flt(&btpb.RowFilter{Filter: &btpb.RowFilter_ApplyLabelTransformer{ApplyLabelTransformer: "NOT VALID!"}}))
	add("filter/sink", flt(&btpb.RowFilter{Filter: &btpb.RowFilter_Sink{Sink: true}}))
	// row sets
	add("rowset/nil-range", func(s *bt.Server, ctx context.Context) error {
		return rr(s, ctx, &btpb.ReadRowsRequest{TableName: T, Rows: &btpb.RowSet{RowRanges: []*btpb.RowRange{nil, {}}}})
	})
	add("rowset/empty-keys", func(s *bt.Server, ctx context.Context) error {
		return rr(s, ctx, &btpb.ReadRowsRequest{TableName: T, Rows: &btpb.RowSet{RowKeys: [][]byte{nil, {}}}})
	})
	add("rows-limit-negative", func(s *bt.Server, ctx context.Context) error {
		return rr(s, ctx, &btpb.ReadRowsRequest{TableName: T, RowsLimit: -5})
	})
	// admin
	add("create/nil-table", func(s *bt.Server, ctx context.Context) error {
		_, err := s.Admin.CreateTable(ctx, &btapb.CreateTableRequest{Parent: "projects/p/instances/i", TableId: "keep"})
		return err
	})
	add("create/existing", func(s *bt.Server, ctx context.Context) error {
		_, err := s.Admin.CreateTable(ctx, &btapb.CreateTableRequest{Parent: "projects/p/instances/i", TableId: "keep", Table: &btapb.Table{ColumnFamilies: map[string]*btapb.ColumnFamily{"x": nil}}})
		return err
	})
	add("modify/nil-modification", func(s *bt.Server, ctx context.Context) error {
		_, err := s.Admin.ModifyColumnFamilies(ctx, &btapb.ModifyColumnFamiliesRequest{Name: T, Modifications: []*btapb.ModifyColumnFamiliesRequest_Modification{nil}})
		return err
	})
	add("modify/unknown-family", func(s *bt.Server, ctx context.Context) error {
		_, err := s.Admin.ModifyColumnFamilies(ctx, &btapb.ModifyColumnFamiliesRequest{Name: T, Modifications: []*btapb.ModifyColumnFamiliesRequest_Modification{{Id: "nope", Mod: &btapb.ModifyColumnFamiliesRequest_Modification_Drop{Drop: true}}}})
		return err
	})
	add("modify/update-nil-family", func(s *bt.Server, ctx context.Context) error {
		_, err := s.Admin.ModifyColumnFamilies(ctx, &btapb.ModifyColumnFamiliesRequest{Name: T, Modifications: []*btapb.ModifyColumnFamiliesRequest_Modification{{Id: "nope", Mod: &btapb.ModifyColumnFamiliesRequest_Modification_Update{}}}})
		return err
	})
	add("droprowrange/no-target", func(s *bt.Server, ctx context.Context) error {
		_, err := s.Admin.DropRowRange(ctx, &btapb.DropRowRangeRequest{Name: T})
		return err
	})
	add("unimplemented/PingAndWarm", func(s *bt.Server, ctx context.Context) error {
		_, err := s.Data.PingAndWarm(ctx, &btpb.PingAndWarmRequest{Name: "projects/p/instances/i"})
		return err
	})
	add("unimplemented/CreateBackup", func(s *bt.Server, ctx context.Context) error {
		_, err := s.Admin.CreateBackup(ctx, &btapb.CreateBackupRequest{Parent: "projects/p/instances/i/clusters/c"})
		return err
	})
	return out
}

// GC with degenerate rules must not crash the collector (the pass runs in the emulator's own goroutine)
func btGcPerturbations() []bt.Rule {
	return []bt.Rule{{T: "maxver", N: -1}, {T: "maxver", N: -2147483648}, {T: "maxage", Us: -5_000_000}, {T: "union"}, {T: "inter"},
		{T: "union", Rules: []bt.Rule{{T: "none"}, {T: "maxver", N: -3}}}}
}

func kindOf(err error, elapsed time.Duration, s *bt.Server, panicsBefore int) (string, int) {
	code := int(status.Code(err))
	if len(s.Panics) > panicsBefore || code == 99 {
		return "panic", code
	}
	if elapsed > 20*time.Second || code == int(codes.DeadlineExceeded) {
		return "timeout", code
	}
	if code == int(codes.Unavailable) && err != nil && strings.Contains(err.Error(), "transport") {
		return "abort", code
	}
	return "status", code
}

// btRobustness: engine mem | btree | disk run the emulator in-process (a handler panic is caught by the harness's
// interceptor and reported); engine "child" runs a real cbtemulator process on a data directory, where an unrecovered
// panic or a fatal runtime error kills the process -- observed as an aborted call and a failing probe; the process
// is then started again on the same directory and the run goes on.
func btRobustness(engine string, r *rand.Rand, nFuzz int) []robEvent {
	dir := ""
	if engine == "disk" || engine == "child" {
		dir = tmpDir()
	}
	var s *bt.Server
	var ch *child
	parents := []string{"projects/p/instances/i"}
	if engine == "child" {
		c, err := startChild(dir, "", parents)
		if err != nil {
			panic(err)
		}
		ch, s = c, c.srv
		defer func() { ch.kill(); _ = os.RemoveAll(dir) }()
	} else {
		var err error
		s, err = bt.Start(engine, dir)
		if err != nil {
			panic(err)
		}
		defer s.CloseAndRemove()
	}
	// revive: in child mode, a dead process is started again on the same directory
	revive := func(ev *robEvent) {
		if ch == nil || ch.alive() {
			return
		}
		ev.Kind = "abort"
		ch.kill()
		ev.Detail += " [the emulator process died: " + lastLines(ch.errOut.String(), 4) + "]"
		c, err := startChild(dir, "", parents)
		if err != nil {
			panic(fmt.Sprintf("the emulator does not start again on its directory: %v", err))
		}
		ch, s = c, c.srv
	}
	s.AddParent("projects/p/instances/i")
	s.SetClock(5_000_000)
	keep := j.S(keepTable)
	setup := []bt.Op{{Ev: "CreateTable", T: keep, Parent: j.S("projects/p/instances/i"), Fams: []bt.FamDef{{F: j.S("f"), Rule: bt.Rule{T: "none"}}, {F: j.S("g"), Rule: bt.Rule{T: "maxver", N: 2}}}},
		{Ev: "MutateRow", T: keep, K: j.S("a"), Now: 5_000_000, Muts: []bt.Mut{{M: "set", F: j.S("f"), Q: j.S("q"), Ts: 1000, V: j.S("x")}, {M: "set", F: j.S("g"), Q: j.S(""), Ts: 2000, V: j.S("y")}}},
		{Ev: "MutateRow", T: keep, K: j.S("b\x00"), Now: 5_000_000, Muts: []bt.Mut{{M: "set", F: j.S("f"), Q: j.S("q"), Ts: 1000, V: j.S("\xff")}}}}
	for i := range setup {
		s.Exec(&setup[i])
	}
	snapshot := func() string {
		o := s.Observe()
		var keepRows []bt.Row
		for _, t := range o.Tables {
			if string(t.T) == keepTable {
				for _, row := range t.Rows {
					if string(row.K) != "probe" {
						keepRows = append(keepRows, row)
					}
				}
			}
		}
		b, _ := json.Marshal(keepRows)
		return string(b) + "|" + o.Err
	}
	before := snapshot()
	var out []robEvent
	n := 0
	probe := func(ev *robEvent) {
		n++
		dead := ch != nil && !ch.alive()
		op := bt.Op{Ev: "MutateRow", T: keep, K: j.S("probe"), Now: 5_000_000, Muts: []bt.Mut{{M: "set", F: j.S("f"), Q: j.S("n"), Ts: 1000, V: j.S(fmt.Sprint(n))}}}
		s.Exec(&op)
		ev.ProbeWrite = op.Resp.Code == 0 && !dead
		revive(ev)
		rd := bt.Op{Ev: "ReadRows", T: keep}
		s.Exec(&rd)
		ev.ProbeRead = rd.Resp.Code == 0
		now := snapshot()
		ev.DataIntact = now == before
		before = now
		ev.N, ev.Sys, ev.Engine = n, "bt", engine
	}
	for _, p := range btPerturbations() {
		ctx, cancel := context.WithTimeout(context.Background(), 25*time.Second)
		pb := len(s.Panics)
		t0 := time.Now()
		err := p.do(s, ctx)
		cancel()
		ev := robEvent{Class: p.class, Ev: "Raw"}
		ev.Kind, ev.Code = kindOf(err, time.Since(t0), s, pb)
		if err != nil {
			ev.Detail = fmt.Sprintf("%.200s", err.Error())
		}
		probe(&ev)
		out = append(out, ev)
	}
	if ch != nil {
		// a client that walks away from a large scan (more than the flow-control windows hold) after its first message
		big := "projects/p/instances/i/tables/big"
		cr := bt.Op{Ev: "CreateTable", T: j.S(big), Parent: j.S("projects/p/instances/i"), Fams: []bt.FamDef{{F: j.S("f"), Rule: bt.Rule{T: "none"}}}}
		s.Exec(&cr)
		val := bytes.Repeat([]byte("x"), 4096)
		for lo := 0; lo < 4000; lo += 500 {
			req := &btpb.MutateRowsRequest{TableName: big}
			for i := lo; i < lo+500; i++ {
				req.Entries = append(req.Entries, &btpb.MutateRowsRequest_Entry{RowKey: []byte(fmt.Sprintf("r%05d", i)), Mutations: []*btpb.Mutation{
					{Mutation: &btpb.Mutation_SetCell_{SetCell: &btpb.Mutation_SetCell{FamilyName: "f", ColumnQualifier: []byte("q"), TimestampMicros: 1000, Value: val}}}}})
			}
			ctx, cancel := context.WithTimeout(context.Background(), 60*time.Second)
			if st, err := s.Data.MutateRows(ctx, req); err == nil {
				for {
					if _, err := st.Recv(); err != nil {
						break
					}
				}
			}
			cancel()
		}
		for round := 0; round < 3; round++ {
			ctx, cancel := context.WithTimeout(context.Background(), 25*time.Second)
			t0 := time.Now()
			st, err := s.Data.ReadRows(ctx, &btpb.ReadRowsRequest{TableName: big})
			if err == nil {
				_, err = st.Recv()
			}
			cancel() // abandon the stream
			time.Sleep(300 * time.Millisecond)
			ev := robEvent{Class: "abandoned/ReadRows", Ev: "Raw", Req: "ReadRows of a 16 MB table, cancelled by the client after the first response message"}
			ev.Kind, ev.Code = kindOf(err, time.Since(t0), s, len(s.Panics))
			probe(&ev)
			out = append(out, ev)
		}
		dr := bt.Op{Ev: "DeleteTable", T: j.S(big)}
		s.Exec(&dr)
		before = snapshot()
	}
	// degenerate GC rules: accepted or rejected, but a pass must not crash
	for i, rule := range btGcPerturbations() {
		if ch != nil {
			break // a GC pass can only be forced in-process
		}
		tn := fmt.Sprintf("projects/p/instances/i/tables/gc%d", i)
		ev := robEvent{Class: "gc-rule/" + fmt.Sprint(rule), Ev: "Raw"}
		func() {
			defer func() {
				if rec := recover(); rec != nil {
					ev.Kind, ev.Code, ev.Detail = "panic", 99, fmt.Sprint(rec)
				}
			}()
			c := bt.Op{Ev: "CreateTable", T: j.S(tn), Parent: j.S("projects/p/instances/i"), Fams: []bt.FamDef{{F: j.S("f"), Rule: rule}}}
			s.Exec(&c)
			w := bt.Op{Ev: "MutateRow", T: j.S(tn), K: j.S("a"), Now: 5_000_000, Muts: []bt.Mut{{M: "set", F: j.S("f"), Q: j.S("q"), Ts: 1000, V: j.S("x")}, {M: "set", F: j.S("f"), Q: j.S("q"), Ts: 2000, V: j.S("x")}}}
			s.Exec(&w)
			g := bt.Op{Ev: "GcPass", T: j.S(tn), Now: 9_000_000}
			s.Exec(&g)
			d := bt.Op{Ev: "DeleteTable", T: j.S(tn)}
			s.Exec(&d)
			ev.Kind, ev.Code = "status", c.Resp.Code
		}()
		probe(&ev)
		out = append(out, ev)
	}
	// field-level fuzz of valid requests against a scratch table (extreme numbers, empty and binary strings)
	fz := j.S("projects/p/instances/i/tables/fuzz")
	c := bt.Op{Ev: "CreateTable", T: fz, Parent: j.S("projects/p/instances/i"), Fams: []bt.FamDef{{F: j.S("f"), Rule: bt.Rule{T: "maxage", Us: 1}}}}
	s.Exec(&c)
	ints := []int64{0, -1, 1, 999, 1000, -1000, 1 << 62, -(1 << 62), 9223372036854775807, -9223372036854775808}
	strs := [][]byte{nil, {}, {0}, {0xff}, []byte("a"), bytes.Repeat([]byte{0xff}, 300), []byte("f"), []byte("\x00\x00")}
	for i := 0; i < nFuzz; i++ {
		ctx, cancel := context.WithTimeout(context.Background(), 25*time.Second)
		pb := len(s.Panics)
		t0 := time.Now()
		var err error
		pi := func() int64 { return ints[r.Intn(len(ints))] }
		ps := func() []byte { return strs[r.Intn(len(strs))] }
		class, reqNote := "", ""
		var reqMsg proto.Message
		switch r.Intn(6) {
		case 0:
			class = "fuzz/MutateRow"
			rq := &btpb.MutateRowRequest{TableName: string(fz), RowKey: ps(), Mutations: []*btpb.Mutation{
				{Mutation: &btpb.Mutation_SetCell_{SetCell: &btpb.Mutation_SetCell{FamilyName: string(ps()), ColumnQualifier: ps(), TimestampMicros: pi(), Value: ps()}}},
				{Mutation: &btpb.Mutation_DeleteFromColumn_{DeleteFromColumn: &btpb.Mutation_DeleteFromColumn{FamilyName: "f", ColumnQualifier: ps(), TimeRange: &btpb.TimestampRange{StartTimestampMicros: pi(), EndTimestampMicros: pi()}}}}}}
			reqMsg = rq
			_, err = s.Data.MutateRow(ctx, rq)
		case 1:
			class = "fuzz/ReadRows"
			rq := &btpb.ReadRowsRequest{TableName: string(fz), RowsLimit: pi(), Rows: &btpb.RowSet{RowKeys: [][]byte{ps()}, RowRanges: []*btpb.RowRange{
				{StartKey: &btpb.RowRange_StartKeyOpen{StartKeyOpen: ps()}, EndKey: &btpb.RowRange_EndKeyClosed{EndKeyClosed: ps()}}}},
				Filter: &btpb.RowFilter{Filter: &btpb.RowFilter_TimestampRangeFilter{TimestampRangeFilter: &btpb.TimestampRange{StartTimestampMicros: pi(), EndTimestampMicros: pi()}}}}
			reqMsg = rq
			st, e := s.Data.ReadRows(ctx, rq)
			err = drainRead(st, e)
		case 2:
			class = "fuzz/ReadModifyWriteRow"
			rq := &btpb.ReadModifyWriteRowRequest{TableName: string(fz), RowKey: ps(), Rules: []*btpb.ReadModifyWriteRule{
				{FamilyName: "f", ColumnQualifier: ps(), Rule: &btpb.ReadModifyWriteRule_IncrementAmount{IncrementAmount: pi()}},
				{FamilyName: string(ps()), ColumnQualifier: ps(), Rule: &btpb.ReadModifyWriteRule_AppendValue{AppendValue: ps()}}}}
			reqMsg = rq
			_, err = s.Data.ReadModifyWriteRow(ctx, rq)
		case 3:
			class = "fuzz/CheckAndMutateRow"
			rq := &btpb.CheckAndMutateRowRequest{TableName: string(fz), RowKey: ps(),
				PredicateFilter: &btpb.RowFilter{Filter: &btpb.RowFilter_ColumnRangeFilter{ColumnRangeFilter: &btpb.ColumnRange{FamilyName: string(ps()), StartQualifier: &btpb.ColumnRange_StartQualifierOpen{StartQualifierOpen: ps()}}}},
				TrueMutations:   []*btpb.Mutation{{Mutation: &btpb.Mutation_DeleteFromRow_{DeleteFromRow: &btpb.Mutation_DeleteFromRow{}}}}}
			reqMsg = rq
			_, err = s.Data.CheckAndMutateRow(ctx, rq)
		case 4:
			class = "fuzz/ModifyColumnFamilies"
			rq := &btapb.ModifyColumnFamiliesRequest{Name: string(fz), Modifications: []*btapb.ModifyColumnFamiliesRequest_Modification{
				{Id: "f", Mod: &btapb.ModifyColumnFamiliesRequest_Modification_Update{Update: &btapb.ColumnFamily{GcRule: &btapb.GcRule{Rule: &btapb.GcRule_MaxAge{MaxAge: &durationpb.Duration{Seconds: pi() % 1000000000, Nanos: int32(pi() % 1000)}}}}}}}}
			reqMsg = rq
			_, err = s.Admin.ModifyColumnFamilies(ctx, rq)
			g := bt.Op{Ev: "GcPass", T: fz, Now: j.N64(pi())}
			reqNote = fmt.Sprintf(" then a GC pass at clock %d", int64(g.Now))
			func() {
				defer func() {
					if rec := recover(); rec != nil {
						err = status.Errorf(codes.Code(99), "PANIC in GC pass: %v", rec)
					}
				}()
				if ch == nil {
					s.Exec(&g)
				}
			}()
		default:
			class = "fuzz/DropRowRange"
			rq := &btapb.DropRowRangeRequest{Name: string(fz), Target: &btapb.DropRowRangeRequest_RowKeyPrefix{RowKeyPrefix: ps()}}
			reqMsg = rq
			_, err = s.Admin.DropRowRange(ctx, rq)
		}
		cancel()
		ev := robEvent{Class: class, Ev: "Fuzz", Req: prototext.MarshalOptions{}.Format(reqMsg) + reqNote}
		ev.Kind, ev.Code = kindOf(err, time.Since(t0), s, pb)
		if err != nil {
			ev.Detail = fmt.Sprintf("%.200s", err.Error())
		}
		probe(&ev)
		out = append(out, ev)
	}
	return out
}

// ---------------------------------------------------------------- GCS

type gcsPert struct {
	class  string
	method string
	path   string // appended to the base URL
	hdr    map[string]string
	body   []byte
	api    bool // the request reaches the JSON API handler: errors must carry a JSON error body
}

func gcsPerturbations() []gcsPert {
	jsn := map[string]string{"Content-Type": "application/json"}
	var out []gcsPert
	add := func(class, method, path string, hdr map[string]string, body string, api bool) {
		out = append(out, gcsPert{class, method, path, hdr, []byte(body), api})
	}
	add("url/unrecognised", "GET", "/", nil, "", true)
	add("url/garbage", "GET", "/%zz", nil, "", false)
	add("url/storage-root", "GET", "/storage/v1", nil, "", true)
	add("url/no-bucket", "GET", "/storage/v1/b", nil, "", true)
	add("method/unsupported", "TRACE", "/storage/v1/b/keep/o/a", nil, "", true)
	add("method/put-without-upload-id", "PUT", "/storage/v1/b/keep/o/a", nil, "x", true)
	add("missing/bucket-get", "GET", "/storage/v1/b/nope", nil, "", true)
	add("missing/bucket-list", "GET", "/storage/v1/b/nope/o", nil, "", true)
	add("missing/object-meta", "GET", "/storage/v1/b/keep/o/nope", nil, "", true)
	add("missing/object-media", "GET", "/storage/v1/b/keep/o/nope?alt=media", nil, "", true)
	add("missing/object-delete", "DELETE", "/storage/v1/b/keep/o/nope", nil, "", true)
	add("missing/object-patch", "PATCH", "/storage/v1/b/keep/o/nope?alt=json", jsn, `{"contentType":"x"}`, true)
	add("missing/bucket-delete", "DELETE", "/storage/v1/b/nope", nil, "", true)
	add("alt/unsupported", "GET", "/storage/v1/b/keep/o/a?alt=xml", nil, "", true)
	add("patch/not-json", "PATCH", "/storage/v1/b/keep/o/a", map[string]string{"Content-Type": "text/plain"}, "x", true)
	add("patch/bad-json", "PATCH", "/storage/v1/b/keep/o/a?alt=json", jsn, `{"metadata": {`, true)
	add("patch/ill-typed", "PATCH", "/storage/v1/b/keep/o/a?alt=json", jsn, `{"metadata": 5, "size": "x"}`, true)
	add("conds/unparsable", "DELETE", "/storage/v1/b/keep/o/a?ifGenerationMatch=abc", nil, "", true)
	add("conds/huge", "DELETE", "/storage/v1/b/keep/o/a?ifGenerationMatch=99999999999999999999999", nil, "", true)
	add("conds/negative", "DELETE", "/storage/v1/b/keep/o/a?ifMetagenerationMatch=-5", nil, "", true)
	add("list/bad-maxResults", "GET", "/storage/v1/b/keep/o?maxResults=abc", nil, "", true)
	add("list/zero-maxResults", "GET", "/storage/v1/b/keep/o?maxResults=0", nil, "", true)
	add("list/negative-maxResults", "GET", "/storage/v1/b/keep/o?maxResults=-3", nil, "", true)
	add("list/huge-maxResults", "GET", "/storage/v1/b/keep/o?maxResults=99999999999999999999", nil, "", true)
	add("list/bad-token", "GET", "/storage/v1/b/keep/o?pageToken=!!!notbase64", nil, "", true)
	add("list/token-not-proto", "GET", "/storage/v1/b/keep/o?pageToken=AAAA////", nil, "", true)
	add("bucket/create-bad-json", "POST", "/storage/v1/b", jsn, `{"name": `, true)
	add("bucket/create-empty", "POST", "/storage/v1/b", jsn, ``, true)
	add("upload/no-type", "POST", "/upload/storage/v1/b/keep/o?name=x", nil, "data", true)
	add("upload/unknown-type", "POST", "/upload/storage/v1/b/keep/o?uploadType=weird&name=x", nil, "data", true)
	add("upload/media-no-name", "POST", "/upload/storage/v1/b/keep/o?uploadType=media", nil, "data", true)
	add("upload/multipart-no-content-type", "POST", "/upload/storage/v1/b/keep/o?uploadType=multipart", nil, "data", true)
	add("upload/multipart-not-multipart", "POST", "/upload/storage/v1/b/keep/o?uploadType=multipart", jsn, `{}`, true)
	add("upload/multipart-no-boundary", "POST", "/upload/storage/v1/b/keep/o?uploadType=multipart", map[string]string{"Content-Type": "multipart/related"}, "x", true)
	add("upload/multipart-truncated", "POST", "/upload/storage/v1/b/keep/o?uploadType=multipart", map[string]string{"Content-Type": "multipart/related; boundary=B"}, "--B\r\nContent-Type: application/json\r\n\r\n{\"name\":\"t\"}\r\n--B\r\nContent-Ty", true)
	add("upload/multipart-one-part", "POST", "/upload/storage/v1/b/keep/o?uploadType=multipart", map[string]string{"Content-Type": "multipart/related; boundary=B"}, "--B\r\nContent-Type: application/json\r\n\r\n{\"name\":\"t\"}\r\n--B--\r\n", true)
	add("upload/multipart-bad-json", "POST", "/upload/storage/v1/b/keep/o?uploadType=multipart", map[string]string{"Content-Type": "multipart/related; boundary=B"}, "--B\r\nContent-Type: application/json\r\n\r\n{\"name\":\r\n--B\r\n\r\nx\r\n--B--\r\n", true)
	add("upload/multipart-bad-md5", "POST", "/upload/storage/v1/b/keep/o?uploadType=multipart", map[string]string{"Content-Type": "multipart/related; boundary=B"}, "--B\r\nContent-Type: application/json\r\n\r\n{\"name\":\"t\",\"md5Hash\":\"!!\"}\r\n--B\r\n\r\nx\r\n--B--\r\n", true)
	add("upload/resumable-bad-json", "POST", "/upload/storage/v1/b/keep/o?uploadType=resumable", jsn, `{"name"`, true)
	add("upload/gzip-not-gzip", "POST", "/upload/storage/v1/b/keep/o?uploadType=media&name=gz", map[string]string{"Content-Encoding": "gzip"}, "this is not gzip", false)
	add("resume/unknown-id", "PUT", "/upload/storage/v1/b/keep/o?upload_id=9999", map[string]string{"Content-Range": "bytes 0-0/1"}, "x", true)
	add("resume/id-not-a-number", "PUT", "/upload/storage/v1/b/keep/o?upload_id=abc", map[string]string{"Content-Range": "bytes 0-0/1"}, "x", true)
	add("resume/no-content-range", "PUT", "/upload/storage/v1/b/keep/o?upload_id={ID}", nil, "x", true)
	add("resume/bad-content-range", "PUT", "/upload/storage/v1/b/keep/o?upload_id={ID}", map[string]string{"Content-Range": "bites 0-0/1"}, "x", true)
	add("resume/range-mismatch", "PUT", "/upload/storage/v1/b/keep/o?upload_id={ID}", map[string]string{"Content-Range": "bytes 0-9/10"}, "x", true)
	add("resume/negative-range", "PUT", "/upload/storage/v1/b/keep/o?upload_id={ID}", map[string]string{"Content-Range": "bytes -5--1/10"}, "x", true)
	add("resume/huge-range", "PUT", "/upload/storage/v1/b/keep/o?upload_id={ID}", map[string]string{"Content-Range": "bytes 99999999999999999999-99999999999999999999/1"}, "x", true)
	add("resume/huge-total", "PUT", "/upload/storage/v1/b/keep/o?upload_id={ID}", map[string]string{"Content-Range": "bytes 0-0/9223372036854775807"}, "x", true)
	add("resume/huge-total-query", "PUT", "/upload/storage/v1/b/keep/o?upload_id={ID}", map[string]string{"Content-Range": "bytes */9223372036854775807"}, "", true)
	add("resume/total-overflow", "PUT", "/upload/storage/v1/b/keep/o?upload_id={ID}", map[string]string{"Content-Range": "bytes 0-0/99999999999999999999"}, "x", true)
	// page tokens that do not belong to the listing they are sent with
	add("list/token-shorter-than-prefix", "GET", "/storage/v1/b/keep/o?prefix=dir/sub/&delimiter=/&pageToken="+url.QueryEscape(gcsutil.EncodePageToken("a")), nil, "", true)
	add("list/token-outside-prefix", "GET", "/storage/v1/b/keep/o?prefix=dir/&delimiter=/&pageToken="+url.QueryEscape(gcsutil.EncodePageToken("zzz")), nil, "", true)
	add("list/token-is-the-prefix", "GET", "/storage/v1/b/keep/o?prefix=dir/&delimiter=/&pageToken="+url.QueryEscape(gcsutil.EncodePageToken("dir/")), nil, "", true)
	add("list/token-empty-name", "GET", "/storage/v1/b/keep/o?prefix=d&pageToken="+url.QueryEscape(gcsutil.EncodePageToken("")), nil, "", true)
	add("resume/gap", "PUT", "/upload/storage/v1/b/keep/o?upload_id={ID}", map[string]string{"Content-Range": "bytes 50-50/100"}, "x", true)
	add("resume/inverted-range", "PUT", "/upload/storage/v1/b/keep/o?upload_id={ID}", map[string]string{"Content-Range": "bytes 5-3/10"}, "", true)
	add("compose/bad-json", "POST", "/storage/v1/b/keep/o/dst/compose", jsn, `{`, true)
	add("compose/no-destination", "POST", "/storage/v1/b/keep/o/dst/compose", jsn, `{"sourceObjects":[{"name":"a"}]}`, true)
	add("compose/empty", "POST", "/storage/v1/b/keep/o/dst/compose", jsn, `{}`, true)
	add("compose/missing-source", "POST", "/storage/v1/b/keep/o/dst/compose", jsn, `{"sourceObjects":[{"name":"nope"}],"destination":{}}`, true)
	add("compose/nil-source", "POST", "/storage/v1/b/keep/o/dst/compose", jsn, `{"sourceObjects":[null],"destination":{}}`, true)
	add("compose/twice-in-path", "POST", "/storage/v1/b/keep/o/dst/compose/compose", jsn, `{"sourceObjects":[{"name":"a"}],"destination":{}}`, true)
	add("rewrite/no-destination-object", "POST", "/storage/v1/b/keep/o/a/rewriteTo/b/keep", nil, "", true)
	add("rewrite/no-destination", "POST", "/storage/v1/b/keep/o/a/rewriteTo/", nil, "", true)
	add("rewrite/missing-source", "POST", "/storage/v1/b/keep/o/nope/rewriteTo/b/keep/o/x", nil, "", true)
	add("rewrite/twice", "POST", "/storage/v1/b/keep/o/a/rewriteTo/b/keep/o/x/rewriteTo/b/keep/o/y", nil, "", true)
	add("post/object-unsupported", "POST", "/storage/v1/b/keep/o/a", nil, "", true)
	add("batch/not-multipart", "POST", "/batch/storage/v1", jsn, `{}`, true)
	add("batch/bad-part-type", "POST", "/batch/storage/v1", map[string]string{"Content-Type": "multipart/mixed; boundary=B"}, "--B\r\nContent-Type: text/plain\r\n\r\nGET / HTTP/1.1\r\n\r\n--B--\r\n", true)
	add("batch/unparsable-request", "POST", "/batch/storage/v1", map[string]string{"Content-Type": "multipart/mixed; boundary=B"}, "--B\r\nContent-Type: application/http\r\n\r\nthis is not http\r\n--B--\r\n", true)
	add("batch/truncated", "POST", "/batch/storage/v1", map[string]string{"Content-Type": "multipart/mixed; boundary=B"}, "--B\r\nContent-Type: application/http\r\n\r\nGET /storage/v1/b/keep/o/a HTTP/1.1\r\n", true)
	add("media/gzip-labelled-not-gzip", "GET", "/storage/v1/b/keep/o/fakegz?alt=media", nil, "", true)
	add("public/missing", "GET", "/keep/nope", nil, "", true)
	add("public/embedded-api-path", "GET", "/keep/x/b/y/o/z", nil, "", true)
	return out
}

func rawHTTP(hc *http.Client, method, url string, hdr map[string]string, body []byte) (kind string, code int, respBody []byte) {
	req, err := http.NewRequest(method, url, bytes.NewReader(body))
	if err != nil {
		return "status", 400, []byte("client-side: " + err.Error()) // the request cannot even be formed: not sent
	}
	for k, v := range hdr {
		req.Header.Set(k, v)
	}
	t0 := time.Now()
	resp, err := hc.Do(req)
	if err != nil && (strings.Contains(err.Error(), "invalid header") || strings.Contains(err.Error(), "invalid method") || strings.Contains(err.Error(), "malformed") || strings.Contains(err.Error(), "invalid URL")) {
		return "status", 400, []byte("client-side: " + err.Error()) // refused by the HTTP client: never sent
	}
	if err != nil {
		if time.Since(t0) > 20*time.Second {
			return "timeout", -1, nil
		}
		return "abort", -1, []byte(err.Error())
	}
	defer resp.Body.Close()
	b, err := io.ReadAll(resp.Body)
	if err != nil {
		return "abort", resp.StatusCode, b
	}
	return "status", resp.StatusCode, b
}

func gcsRobustness(store string, r *rand.Rand, nFuzz int) []robEvent {
	dir := ""
	if store == "file" {
		dir = tmpDir()
	}
	s, err := gcs.Start(store, dir)
	if err != nil {
		panic(err)
	}
	defer s.CloseAndRemove()
	hc := &http.Client{Timeout: 25 * time.Second, Transport: &http.Transport{DisableCompression: true}, CheckRedirect: func(*http.Request, []*http.Request) error { return http.ErrUseLastResponse }}
	nc := gcs.NoConds()
	B := j.S("keep")
	setup := []gcs.Op{{Ev: "CreateBucket", B: B},
		{Ev: "Upload", B: B, N: j.S("a"), Proto: "media", Content: j.S("content of a"), Decl: "none", Attrs: []gcs.KV{{K: "ct", V: j.S("text/plain")}}, Conds: nc},
		{Ev: "Upload", B: B, N: j.S("dir/b.bin"), Proto: "multipart", Content: j.B{0, 1, 2, 255}, Decl: "ok", Attrs: []gcs.KV{{K: "ct", V: j.S("application/octet-stream")}}, Meta: []gcs.KVB{{K: j.S("k"), V: j.S("v")}}, Conds: nc},
		{Ev: "Upload", B: B, N: j.S("fakegz"), Proto: "multipart", Content: j.S("not gzip at all"), Decl: "none", Attrs: []gcs.KV{{K: "ct", V: j.S("text/plain")}, {K: "ce", V: j.S("gzip")}}, Conds: nc},
		{Ev: "ResumableStart", B: B, N: j.S("pending"), Decl: "none", Conds: nc}}
	evs := s.Run(0, setup)
	uploadID := evs[len(evs)-1].Id
	snapshot := func() string {
		o := s.Observe()
		var keepObjs []gcs.ObsObj
		for _, b := range o.Buckets {
			if string(b.B) == "keep" {
				for _, ob := range b.Objs {
					if string(ob.N) == "a" || string(ob.N) == "dir/b.bin" {
						keepObjs = append(keepObjs, ob)
					}
				}
			}
		}
		b, _ := json.Marshal(keepObjs)
		return string(b)
	}
	before := snapshot()
	var out []robEvent
	n := 0
	probe := func(ev *robEvent) {
		n++
		k, c, _ := rawHTTP(hc, "POST", s.URL+"/upload/storage/v1/b/keep/o?uploadType=media&name=probe", map[string]string{"Content-Type": "text/plain"}, []byte(fmt.Sprint(n)))
		ev.ProbeWrite = k == "status" && c == 200
		k, c, body := rawHTTP(hc, "GET", s.URL+"/storage/v1/b/keep/o/probe?alt=media", nil, nil)
		ev.ProbeRead = k == "status" && c == 200 && string(body) == fmt.Sprint(n)
		now := snapshot()
		ev.DataIntact = now == before
		before = now
		ev.N, ev.Sys, ev.Engine = n, "gcs", store
	}
	record := func(class, evName string, api bool, kind string, code int, body []byte) robEvent {
		ev := robEvent{Class: class, Ev: evName, Kind: kind, Code: code, Api: api, HasBody: len(bytes.TrimSpace(body)) > 0}
		var e struct {
			Error struct {
				Code int `json:"code"`
			} `json:"error"`
		}
		ev.ErrJSON = json.Unmarshal(body, &e) == nil && e.Error.Code == code
		if code >= 400 || kind != "status" {
			ev.Detail = fmt.Sprintf("%.160s", body)
		}
		return ev
	}
	for _, p := range gcsPerturbations() {
		path := strings.ReplaceAll(p.path, "{ID}", fmt.Sprint(uploadID))
		kind, code, body := rawHTTP(hc, p.method, s.URL+path, p.hdr, p.body)
		ev := record(p.class, "Raw", p.api, kind, code, body)
		ev.Req = fmt.Sprintf("%s %q headers=%q body=%q", p.method, path, p.hdr, p.body)
		probe(&ev)
		out = append(out, ev)
	}
	// batch: every sub-response equals the standalone reply to the same request
	subs := []struct{ method, path string }{{"GET", "/storage/v1/b/keep/o/a"}, {"GET", "/storage/v1/b/keep/o/nope"}, {"GET", "/storage/v1/b/keep/o/dir%2Fb.bin?alt=media"},
		{"DELETE", "/storage/v1/b/keep/o/nope"}, {"GET", "/storage/v1/b/nope/o"}, {"GET", "/storage/v1/b/keep/o?prefix=d&delimiter=/"}, {"GET", "/storage/v1/b/keep"}, {"DELETE", "/storage/v1/b/keep/o/a?ifGenerationMatch=5"}}
	for round := 0; round < 3; round++ {
		perm := r.Perm(len(subs))[:2+r.Intn(len(subs)-2)]
		var body bytes.Buffer
		ev := robEvent{Class: fmt.Sprintf("batch/%d-parts", len(perm)), Ev: "Batch", Api: true}
		for i, pi := range perm {
			sb := subs[pi]
			k, c, b := rawHTTP(hc, sb.method, s.URL+sb.path, nil, nil)
			if k != "status" {
				c = -1
			}
			ev.Alone = append(ev.Alone, subResp{Code: c, Body: j.B(bytes.TrimSpace(b))})
			fmt.Fprintf(&body, "--BB\r\nContent-Type: application/http\r\nContent-ID: <id+%d>\r\n\r\n%s %s HTTP/1.1\r\n\r\n\r\n", i, sb.method, sb.path)
		}
		body.WriteString("--BB--\r\n")
		kind, code, resp := rawHTTP(hc, "POST", s.URL+"/batch/storage/v1", map[string]string{"Content-Type": "multipart/mixed; boundary=BB"}, body.Bytes())
		ev.Kind, ev.Code, ev.HasBody, ev.ErrJSON = kind, code, len(resp) > 0, true
		ev.Parts = parseBatch(resp)
		probe(&ev)
		out = append(out, ev)
	}
	// byte-level fuzz of valid requests
	valid := []gcsPert{
		{"", "POST", "/upload/storage/v1/b/keep/o?uploadType=media&name=fz1", map[string]string{"Content-Type": "text/plain"}, []byte("fuzz body"), true},
		{"", "POST", "/upload/storage/v1/b/keep/o?uploadType=multipart", map[string]string{"Content-Type": "multipart/related; boundary=B"}, []byte("--B\r\nContent-Type: application/json\r\n\r\n{\"name\":\"fz2\",\"metadata\":{\"a\":\"b\"}}\r\n--B\r\nContent-Type: text/plain\r\n\r\nbody\r\n--B--\r\n"), true},
		{"", "PATCH", "/storage/v1/b/keep/o/fz1?alt=json", map[string]string{"Content-Type": "application/json"}, []byte(`{"contentType":"x/y","metadata":{"k":"v"}}`), true},
		{"", "GET", "/storage/v1/b/keep/o?prefix=f&delimiter=/&maxResults=2", nil, nil, true},
		{"", "POST", "/storage/v1/b/keep/o/fzc/compose", map[string]string{"Content-Type": "application/json"}, []byte(`{"sourceObjects":[{"name":"fz1"},{"name":"fz1","objectPreconditions":{"ifGenerationMatch":"1"}}],"destination":{"contentType":"t"}}`), true},
		{"", "POST", "/storage/v1/b/keep/o/fz1/rewriteTo/b/keep/o/fz3", nil, nil, true},
		{"", "PUT", "/upload/storage/v1/b/keep/o?upload_id=" + fmt.Sprint(uploadID), map[string]string{"Content-Range": "bytes 0-3/*"}, []byte("abcd"), true},
		{"", "DELETE", "/storage/v1/b/keep/o/fz3?ifGenerationMatch=1", nil, nil, true},
		{"", "POST", "/batch/storage/v1", map[string]string{"Content-Type": "multipart/mixed; boundary=BB"}, []byte("--BB\r\nContent-Type: application/http\r\n\r\nGET /storage/v1/b/keep/o/fz1 HTTP/1.1\r\n\r\n\r\n--BB--\r\n"), true},
	}
	mutate := func(b []byte) []byte {
		if len(b) == 0 {
			return b
		}
		out := append([]byte(nil), b...)
		for k := 1 + r.Intn(3); k > 0; k-- {
			switch r.Intn(4) {
			case 0:
				out[r.Intn(len(out))] = byte(r.Intn(256))
			case 1:
				i := r.Intn(len(out))
				out = append(out[:i], out[i+1:]...)
			case 2:
				i := r.Intn(len(out) + 1)
				out = append(out[:i], append([]byte{byte(r.Intn(256))}, out[i:]...)...)
			default:
				out = out[:r.Intn(len(out)+1)]
			}
			if len(out) == 0 {
				break
			}
		}
		return out
	}
	for i := 0; i < nFuzz; i++ {
		v := valid[r.Intn(len(valid))]
		path, hdr, body := v.path, map[string]string{}, v.body
		for k, x := range v.hdr {
			hdr[k] = x
		}
		switch r.Intn(3) {
		case 0:
			path = string(mutate([]byte(path)))
			if !strings.HasPrefix(path, "/") {
				path = "/" + path
			}
		case 1:
			body = mutate(body)
		default:
			for k := range hdr {
				hdr[k] = string(mutate([]byte(hdr[k])))
			}
		}
		// a path that still names one of the objects whose integrity the probe watches is not sent
		if strings.Contains(path, "/o/a") || strings.Contains(path, "dir") || strings.Contains(path, "name=a") || (strings.HasSuffix(strings.SplitN(path, "?", 2)[0], "/b/keep") && v.method == "DELETE") {
			continue
		}
		kind, code, resp := rawHTTP(hc, v.method, s.URL+path, hdr, body)
		ev := record("fuzz/"+v.method+" "+strings.SplitN(v.path, "?", 2)[0], "Fuzz", false, kind, code, resp)
		ev.Req = fmt.Sprintf("%s %q headers=%q body=%q", v.method, path, hdr, body)
		probe(&ev)
		out = append(out, ev)
	}
	return out
}

func parseBatch(resp []byte) []subResp {
	// multipart/mixed with boundary on the first line
	lines := bytes.SplitN(resp, []byte("\r\n"), 2)
	if len(lines) < 2 || !bytes.HasPrefix(lines[0], []byte("--")) {
		return nil
	}
	boundary := lines[0]
	var out []subResp
	for _, part := range bytes.Split(resp, boundary) {
		part = bytes.TrimPrefix(part, []byte("\r\n"))
		if len(part) == 0 || bytes.HasPrefix(part, []byte("--")) {
			continue
		}
		i := bytes.Index(part, []byte("HTTP/1.1 "))
		if i < 0 {
			continue
		}
		rest := part[i+len("HTTP/1.1 "):]
		var code int
		fmt.Sscanf(string(rest), "%d", &code)
		body := []byte{}
		if k := bytes.Index(rest, []byte("\r\n\r\n")); k >= 0 {
			body = rest[k+4:]
		}
		out = append(out, subResp{Code: code, Body: j.B(bytes.TrimSpace(body))})
	}
	return out
}

// ---------------------------------------------------------------- the check

func validateRobust(evs []robEvent) (pairs map[string][][2]string, rejected []int, err error) {
	var buf bytes.Buffer
	for i := range evs {
		evs[i].N = i + 1
		buf.Write(j.Line(evs[i]))
	}
	res, err := tlc.Run(tlc.Options{Module: "Robust", Cfg: "Robust.cfg", Workers: 1, Timeout: 10 * time.Minute, Files: map[string][]byte{"trace.ndjson": buf.Bytes()}})
	if err != nil {
		return nil, nil, err
	}
	if res.ExitCode != 0 {
		return nil, nil, fmt.Errorf("TLC Robust exit %d: %v %s", res.ExitCode, firstN(res.ErrorLines, 3), res.Tail(6))
	}
	for _, p := range res.Tag("REJECT") {
		var x struct{ N int }
		if json.Unmarshal(p[0], &x) == nil {
			rejected = append(rejected, x.N-1)
		}
	}
	pairs = map[string][][2]string{}
	for _, p := range res.Tag("PAIRS") {
		var x map[string][][2]string
		if json.Unmarshal(p[0], &x) == nil {
			pairs = x
		}
	}
	return pairs, rejected, nil
}

// C20 Both emulators: no request or request mix can crash or wedge the service.
func checkC20(c *Ctx) {
	c.rule = "cases = (a) structure-level perturbations of valid requests to every RPC / endpoint (missing tables, buckets, objects; nil sub-messages and unset oneofs; negative and huge numbers; malformed URLs, parameters, JSON, multipart and batch bodies; unknown upload ids; degenerate GC rules), (b) field-level (Bigtable) and byte-level (GCS) fuzzing of valid requests, (c) batches whose sub-responses are compared with the standalone replies -- each followed by a probe (valid write, full read-back of the data stored before) and judged by TLC against Robust.tla (well-formed status, JSON error body for API-level errors, probe succeeds, data intact); (d) the conflicting handler pairs enumerated by TLC from the lock-discipline model of Robust.tla, run concurrently in a harness built with the race detector; distinct = distinct class / pair; non-trivial = every case"
	r := rand.New(rand.NewSource(c.Seed))
	nFuzz := 250
	if !c.Quick() {
		nFuzz = 8000
	}
	var evs []robEvent
	var mu sync.Mutex
	var wg sync.WaitGroup
	for _, eng := range []string{"mem", "disk", "btree", "child"} {
		wg.Add(1)
		go func(eng string, seed int64) {
			defer wg.Done()
			x := btRobustness(eng, rand.New(rand.NewSource(seed)), nFuzz)
			for i := range x {
				x[i].SubSeed, x[i].NFuzz, x[i].Idx = seed, nFuzz, i
			}
			mu.Lock()
			evs = append(evs, x...)
			mu.Unlock()
		}(eng, r.Int63())
	}
	for _, st := range allStores {
		wg.Add(1)
		go func(st string, seed int64) {
			defer wg.Done()
			x := gcsRobustness(st, rand.New(rand.NewSource(seed)), nFuzz)
			for i := range x {
				x[i].SubSeed, x[i].NFuzz, x[i].Idx = seed, nFuzz, i
			}
			mu.Lock()
			evs = append(evs, x...)
			mu.Unlock()
		}(st, r.Int63())
	}
	wg.Wait()
	fmt.Fprintf(os.Stderr, "[C20] %d perturbed requests executed at %.1fs\n", len(evs), time.Since(c.Start).Seconds())
	pairs, rejected, err := validateRobust(evs)
	if err != nil {
		c.Inconclusive("Robust validation: %v", err)
		return
	}
	c.AddModel(1, int64(len(pairs["bt"])+len(pairs["gcs"])))
	c.AddTraces(6, int64(len(evs)))
	classes := map[string]bool{}
	for _, e := range evs {
		c.AddEval(1)
		classes[e.Sys+"/"+e.Class] = true
		c.Nontrivial(e.Sys + "/" + e.Class + "/" + e.Engine)
	}
	c.Extra("perturbation_classes", len(classes))
	c.Sample(map[string]interface{}{"source": "perturbed request with its probe", "event": evs[len(evs)/3]})
	seen := map[string]bool{}
	for _, i := range rejected {
		e := evs[i]
		key := e.Sys + "/" + e.Class + "/" + e.Kind + fmt.Sprint(e.ProbeWrite, e.ProbeRead, e.DataIntact)
		if seen[key] {
			continue
		}
		seen[key] = true
		// confirm on a fresh server: the run this event belongs to is re-executed from its seed
		again, msg := rerunRobust(e)
		if again == nil {
			c.Unreproduced("C20: %s %s (%s) was rejected (kind=%s code=%d intact=%v) but could not be reproduced: %s; request: %.300s", e.Sys, e.Class, e.Engine, e.Kind, e.Code, e.DataIntact, msg, e.Req)
			continue
		}
		e = *again
		what := fmt.Sprintf("C20: %s %s (%s, %s): answered with kind=%s code=%d hasBody=%v jsonError=%v; probe write=%v read=%v data intact=%v; %s; request: %.400s (reproduced)", e.Sys, e.Class, e.Ev, e.Engine, e.Kind, e.Code, e.HasBody, e.ErrJSON, e.ProbeWrite, e.ProbeRead, e.DataIntact, e.Detail, e.Req)
		c.Violation(robustFinding(e), what, map[string]interface{}{"kind": "robust", "event": e})
	}
	// (d) conflicting pairs under the race detector
	c.racePairs(pairs)
	c.Assume("absence of data races is a property of the Go memory model: the specification contributes the lock discipline and the enumeration of conflicting request pairs; the oracle on the real code is the Go race detector and the runtime's own fatal errors during those runs")
	c.Assume("byte-level fuzzing may produce another valid request: for fuzz events only liveness, well-formedness and the integrity of the objects the fuzzer never names are required")
}

func robustFinding(e robEvent) string { return "" }

// rerunRobust re-executes the run a rejected event belongs to (same engine, seed and size) on a fresh server and
// returns the event at the same position if TLC rejects it again.
func rerunRobust(e robEvent) (*robEvent, string) {
	var evs []robEvent
	if e.Sys == "bt" {
		evs = btRobustness(e.Engine, rand.New(rand.NewSource(e.SubSeed)), e.NFuzz)
	} else {
		evs = gcsRobustness(e.Engine, rand.New(rand.NewSource(e.SubSeed)), e.NFuzz)
	}
	if e.Idx >= len(evs) {
		return nil, "the re-executed run is shorter"
	}
	x := evs[e.Idx]
	x.SubSeed, x.NFuzz, x.Idx = e.SubSeed, e.NFuzz, e.Idx
	if x.Class != e.Class {
		return nil, "the re-executed run differs at that position (" + x.Class + ")"
	}
	_, rejected, err := validateRobust([]robEvent{x})
	if err != nil {
		return nil, err.Error()
	}
	if len(rejected) == 0 {
		return nil, fmt.Sprintf("accepted on re-execution (kind=%s code=%d probe=%v/%v intact=%v)", x.Kind, x.Code, x.ProbeWrite, x.ProbeRead, x.DataIntact)
	}
	return &x, ""
}

func init() {
	replayers["robust"] = func(raw json.RawMessage) (bool, string) {
		var cs struct {
			Event robEvent `json:"event"`
		}
		if err := json.Unmarshal(raw, &cs); err != nil {
			return false, "inconclusive: " + err.Error()
		}
		x, msg := rerunRobust(cs.Event)
		if x == nil {
			return false, msg
		}
		b, _ := json.Marshal(x)
		return true, "rejected again by Robust.tla: " + string(b)
	}
}

var racePairSet = [][3]string{
	{"bt", "ModifyFamilies", "GetTable"}, {"bt", "CreateTable", "GetTable"}, {"bt", "CreateTable", "GenerateToken"}, {"bt", "DeleteTable", "CheckConsistency"},
	{"bt", "CreateTable", "ListTables"}, {"bt", "DeleteTable", "ReadRows"}, {"bt", "ModifyFamilies", "MutateRow"}, {"bt", "ModifyFamilies", "ReadRows"},
	{"bt", "DropRowRange", "ReadRows"}, {"bt", "DeleteTable", "ModifyFamilies"}, {"bt", "MutateRow", "SampleRowKeys"}, {"bt", "GcPass", "MutateRow"}, {"bt", "CreateTable", "MutateRow"},
	{"gcs", "CreateBucket", "Upload"}, {"gcs", "DeleteBucket", "List"}, {"gcs", "Delete", "List"}, {"gcs", "Patch", "GetMeta"}, {"gcs", "Patch", "Patch"},
	{"gcs", "Upload", "GetMedia"}, {"gcs", "ResumableChunk", "ResumableChunk"}, {"gcs", "Compose", "Delete"}, {"gcs", "Copy", "Patch"}, {"gcs", "DeleteBucket", "Upload"},
}

func (c *Ctx) racePairs(pairs map[string][][2]string) {
	bin := verifRoot + "/bin/verif-race"
	if _, err := os.Stat(bin); err != nil {
		c.Inconclusive("bin/verif-race is missing (built by scripts/run-check.sh with -race)")
		return
	}
	conflict := map[string]bool{}
	for sys, ps := range pairs {
		for _, p := range ps {
			conflict[sys+"/"+p[0]+"/"+p[1]] = true
		}
	}
	engines := map[string][]string{"bt": {"mem", "btree", "disk"}, "gcs": {"mem", "file"}}
	type job struct {
		pair   [3]string
		engine string
	}
	var jobs []job
	secs := "0.6"
	if c.Quick() {
		// the pairs behind the admin/data mixes the property names, each on one engine (rotating with the seed)
		for i, p := range racePairSet {
			if !conflict[p[0]+"/"+p[1]+"/"+p[2]] {
				c.Inconclusive("pair %v is not a conflicting pair of the lock-discipline model", p)
				continue
			}
			es := engines[p[0]]
			if p[1] == "DeleteTable" && p[2] == "ModifyFamilies" {
				for _, e := range es { // (on every engine: see the longer duration below)
					jobs = append(jobs, job{p, e})
				}
				continue
			}
			jobs = append(jobs, job{p, es[(i+int(c.Seed))%len(es)]})
		}
	} else {
		// every conflicting pair of the model, on every engine
		secs = "3"
		for _, sys := range []string{"bt", "gcs"} {
			seen := map[string]bool{}
			for _, p := range pairs[sys] {
				a, b := p[0], p[1]
				if a > b {
					a, b = b, a
				}
				if seen[a+"/"+b] {
					continue
				}
				seen[a+"/"+b] = true
				for _, e := range engines[sys] {
					jobs = append(jobs, job{[3]string{sys, a, b}, e})
				}
			}
		}
	}
	type res struct {
		pair   [3]string
		engine string
		out    string
		code   int
	}
	var results []res
	var mu sync.Mutex
	var wg sync.WaitGroup
	sem := make(chan struct{}, 6)
	n := len(jobs)
	for _, jb := range jobs {
		wg.Add(1)
		go func(jb job) {
			defer wg.Done()
			sem <- struct{}{}
			defer func() { <-sem }()
			d := secs
			if jb.pair[1] == "DeleteTable" && jb.pair[2] == "ModifyFamilies" && c.Quick() {
				d = "4" // a lock-order inversion between the two needs a few hundred overlapping calls to show
			}
			out, code := runRacePair(jb.pair, jb.engine, d)
			mu.Lock()
			results = append(results, res{jb.pair, jb.engine, out, code})
			mu.Unlock()
		}(jb)
	}
	wg.Wait()
	c.Extra("race_pairs_run", n)
	c.Extra("conflicting_pairs_in_model", len(pairs["bt"])+len(pairs["gcs"]))
	for _, rs := range results {
		c.AddEval(1)
		c.Nontrivial("race/" + rs.pair[0] + "/" + rs.pair[1] + "/" + rs.pair[2] + "/" + rs.engine)
		bad, excerpt := raceVerdict(rs.out, rs.code)
		if bad == "" {
			continue
		}
		id := raceFinding(rs.pair, excerpt)
		c.Violation(id, fmt.Sprintf("C20: %s (%s) requests %s and %s issued concurrently: %s", rs.pair[0], rs.engine, rs.pair[1], rs.pair[2], bad),
			map[string]interface{}{"kind": "race", "pair": rs.pair, "engine": rs.engine, "report": excerpt})
	}
}

func runRacePair(pair [3]string, engine, secs string) (string, int) {
	// the requests are issued for `secs` seconds; a run that is still going a minute later is wedged (deadlock)
	dur, _ := strconv.ParseFloat(secs, 64)
	ctx, cancel := context.WithTimeout(context.Background(), time.Duration(dur*float64(time.Second))+60*time.Second)
	defer cancel()
	cmd := exec.CommandContext(ctx, verifRoot+"/bin/verif-race", "race", pair[0], pair[1], pair[2], secs, engine)
	cmd.Env = append(os.Environ(), "GORACE=halt_on_error=0 exitcode=0")
	var buf bytes.Buffer
	cmd.Stdout, cmd.Stderr = &buf, &buf
	err := cmd.Run()
	code := 0
	if ctx.Err() != nil {
		return buf.String() + "\nHANG: the requests did not all return within a minute after the run's end", -2
	}
	if ee, ok := err.(*exec.ExitError); ok {
		code = ee.ExitCode()
	} else if err != nil {
		code = -1
	}
	return buf.String(), code
}

func raceVerdict(out string, code int) (bad, excerpt string) {
	switch {
	case strings.Contains(out, "fatal error:"):
		bad = "fatal runtime error"
	case strings.Contains(out, "WARNING: DATA RACE"):
		bad = "data race"
	case strings.Contains(out, "HANG:"):
		bad = "requests never returned (deadlock)"
	case strings.Contains(out, "panic:"):
		bad = "panic"
	case code != 0:
		bad = fmt.Sprintf("exit code %d", code)
	}
	excerpt = out
	if i := strings.Index(excerpt, "WARNING: DATA RACE"); i >= 0 {
		excerpt = excerpt[i:]
	} else if i := strings.Index(excerpt, "fatal error:"); i >= 0 {
		excerpt = excerpt[i:]
	}
	if len(excerpt) > 2500 {
		excerpt = excerpt[:2500]
	}
	return bad, excerpt
}

func init() {
	replayers["race"] = func(raw json.RawMessage) (bool, string) {
		var cs struct {
			Pair   [3]string `json:"pair"`
			Engine string    `json:"engine"`
		}
		if err := json.Unmarshal(raw, &cs); err != nil {
			return false, "inconclusive: " + err.Error()
		}
		if cs.Engine == "" {
			cs.Engine = "mem"
		}
		out, code := runRacePair(cs.Pair, cs.Engine, "10")
		bad, excerpt := raceVerdict(out, code)
		if bad == "" {
			return false, "no report in 10 s of concurrent requests: " + strings.TrimSpace(out)
		}
		return true, bad + "\n" + excerpt
	}
}

func raceFinding(pair [3]string, report string) string { return "" }

func lastLines(s string, n int) string {
	ls := strings.Split(strings.TrimSpace(s), "\n")
	if len(ls) > n {
		ls = ls[len(ls)-n:]
	}
	return strings.Join(ls, " | ")
}
