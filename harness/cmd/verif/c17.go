package main

import (
	"bytes"
	"encoding/json"
	"fmt"
	"math/rand"
	"sync"
	"time"

	"verif/harness/internal/bt"
	"verif/harness/internal/j"
	"verif/harness/internal/tlc"
)

func init() { checks["C17"] = checkC17 }

// programs rich in iterations that must stop early: filters failing only on some rows, limits,
// prefix drops, clears, re-created tables
func genEarlyStopProgram(r *rand.Rand) []bt.Op {
	g := gen{r}
	prog := []bt.Op{createOp(btTable)}
	prog = append(prog, g.populate(btTable, 4+g.pick(4), 9000)...)
	errOnSome := func() *bt.Filter {
		bad := []bt.Filter{{K: "pass", B: false}, {K: "rowlimit", N: -1}, {K: "valre", Re: &bt.Re{K: "bad", B: 0}}, {K: "badsample", Pn: 150}, {K: "tsrange", T0: 1500}}[g.pick(5)]
		ok := []bt.Filter{{K: "pass", B: true}, {K: "strip"}, {K: "block", B: true}}[g.pick(3)]
		p := []bt.Filter{
			{K: "keyre", Re: g.regex(g.key())},
			{K: "valre", Re: g.regex(g.val())},
			{K: "colrange", F: genFams[g.pick(2)], Sk: "closed", S: j.S("q"), Ek: "none"},
			{K: "famre", Re: &bt.Re{K: "lit", B: 'g'}},
		}[g.pick(4)]
		f := bt.Filter{K: "cond", P: &p}
		if g.chance(0.5) {
			f.Tb, f.Fb = &bad, &ok
		} else {
			f.Tb, f.Fb = &ok, &bad
		}
		return &f
	}
	n := len(prog) + 10 + g.pick(12)
	for len(prog) < n {
		switch x := g.r.Float64(); {
		case x < 0.45:
			op := bt.Op{Ev: "ReadRows", T: btTable, HasFilter: true, Filter: errOnSome(), Limit: g.pick(3)}
			if g.chance(0.4) {
				op.Rs = bt.RowSet{Ranges: []bt.Range{g.rowRange()}}
			}
			prog = append(prog, op)
		case x < 0.55:
			prog = append(prog, bt.Op{Ev: "ReadRows", T: btTable, Limit: 1 + g.pick(3), Rs: bt.RowSet{Ranges: []bt.Range{g.rowRange(), g.rowRange()}}})
		case x < 0.65:
			prog = append(prog, bt.Op{Ev: "DropRowRange", T: btTable, HasPrefix: true, Prefix: []j.B{j.S("a"), j.S("a\x00"), j.S("\xff"), j.S("b")}[g.pick(4)]})
		case x < 0.70:
			prog = append(prog, bt.Op{Ev: "DropRowRange", T: btTable, All: true})
		case x < 0.76:
			prog = append(prog, bt.Op{Ev: "DeleteTable", T: btTable}, createOp(btTable))
		case x < 0.85:
			f := errOnSome()
			prog = append(prog, bt.Op{Ev: "CheckAndMutate", T: btTable, K: g.key(), HasPred: true, Pred: f, Tm: g.muts(2, 0.1), Fm: g.muts(2, 0.1), Now: 9000})
		default:
			prog = append(prog, g.populate(btTable, 1+g.pick(2), 9000)...)
		}
	}
	return prog
}

// genBigScanProgram: a table of several hundred rows (more than any engine-internal batch or block is likely to hold)
// scanned with filters that fail on exactly one row somewhere in the middle, with row limits that stop the scan early,
// and after a prefix drop: the scan must end where the first engine ends it, whatever the engine buffers.
func genBigScanProgram(r *rand.Rand) []bt.Op {
	g := gen{r}
	prog := []bt.Op{createOp(btTable)}
	n := 300 + g.pick(500)
	key := func(i int) j.B { return j.S(fmt.Sprintf("k%04d", i)) }
	for lo := 0; lo < n; lo += 150 {
		op := bt.Op{Ev: "MutateRows", T: btTable, Now: 5000}
		for i := lo; i < n && i < lo+150; i++ {
			op.Entries = append(op.Entries, bt.Entry{K: key(i), Muts: []bt.Mut{{M: "set", F: genFams[0], Q: j.S("q"), Ts: 1000, V: j.S("v")}}})
		}
		prog = append(prog, op)
	}
	failAt := func(i int) *bt.Filter {
		bad := []bt.Filter{{K: "pass", B: false}, {K: "rowlimit", N: -1}, {K: "block", B: false}}[g.pick(3)]
		ok := bt.Filter{K: "pass", B: true}
		lit := litSeq(key(i))
		p := bt.Filter{K: "keyre", Re: &lit}
		return &bt.Filter{K: "cond", P: &p, Tb: &bad, Fb: &ok}
	}
	for k := 0; k < 3; k++ {
		at := g.pick(n)
		if k == 0 {
			at = g.pick(n / 3) // well before the end: everything an engine fetched ahead must be discarded
		}
		op := bt.Op{Ev: "ReadRows", T: btTable, HasFilter: true, Filter: failAt(at)}
		if g.chance(0.4) {
			op.Limit = at + 1 + g.pick(n-at) // the failing row lies within the limit
		}
		if g.chance(0.3) {
			op.Rs = bt.RowSet{Ranges: []bt.Range{{Sk: "closed", S: key(g.pick(at + 1)), Ek: "none"}}}
		}
		prog = append(prog, op)
	}
	prog = append(prog, bt.Op{Ev: "ReadRows", T: btTable, Limit: 200 + g.pick(200)})
	prog = append(prog, bt.Op{Ev: "DropRowRange", T: btTable, HasPrefix: true, Prefix: j.S(fmt.Sprintf("k0%d", g.pick(3)))})
	prog = append(prog, bt.Op{Ev: "ReadRows", T: btTable, HasFilter: true, Filter: failAt(g.pick(n))})
	return prog
}

// C17 Bigtable: the choice of storage engine is unobservable to clients.
func checkC17(c *Ctx) {
	c.rule = "cases = sequential programs (mutation, read-modify-write, check-and-mutate, admin, GC, filtered-read and early-stopping-scan generators, and scans of 300-800-row tables with a filter that fails on one chosen row, seeded) run in lock-step on the btree, leveldb-mem and leveldb-disk engines; TLC (BtEquiv) requires the three recorded traces to agree event by event on every reply and read-back, and (BtTrace) each to be a behaviour of BtData; distinct = distinct program text; non-trivial = at least two requests"
	r := rand.New(rand.NewSource(c.Seed))
	c.runModel("MC_BtAdmin", cfg{Spec: "Spec", Constants: withDump(map[string]string{"MaxCells": "2", "MaxDepth": "4", "MaxMods": "1"}, false, "1"),
		Constraint: "Constr", View: "View", Invariants: []string{"InvCanonical"}, Properties: []string{"FailedIsNoop", "Frame"}}, 12, 20*time.Minute, false)
	per := 25
	if !c.Quick() {
		per = 1200
	}
	gens := []func(*rand.Rand) []bt.Op{
		func(r *rand.Rand) []bt.Op { return genMutationProgram(r, 20+r.Intn(25)) },
		genRmwProgram, genCamProgram, genAdminProgram, genGcProgram, genFilterProgramS(3, 0) /* no row-sample filters: their outcome is random */, genEarlyStopProgram, genEarlyStopProgram, genRowSetProgram, genPrefixDropProgram,
	}
	var progs [][]bt.Op
	for _, g := range gens {
		for i := 0; i < per; i++ {
			progs = append(progs, g(r))
		}
	}
	sampleAt := len(progs) - 1
	for i := 0; i < 2; i++ { // after the others, so that their programs do not depend on this generator
		progs = append(progs, genBigScanProgram(r))
	}
	for _, p := range progs {
		c.AddEval(1)
		if len(p) > 1 {
			c.Nontrivial(describe(p))
		}
	}
	c.Sample(map[string]interface{}{"source": "early-stopping-scan program (first requests)", "program": stripProg(progs[sampleAt][:min(8, len(progs[sampleAt]))])})
	// lock-step execution and comparison, in batches
	batch := 40
	var wg sync.WaitGroup
	sem := make(chan struct{}, 5)
	type diff struct {
		Tr, I  int
		Ev     string
		Ab, Ac bool
	}
	var mu sync.Mutex
	var diffs []diff
	for lo := 0; lo < len(progs); lo += batch {
		hi := min(lo+batch, len(progs))
		wg.Add(1)
		go func(lo, hi int) {
			defer wg.Done()
			sem <- struct{}{}
			defer func() { <-sem }()
			var bufs [3]bytes.Buffer
			var ew sync.WaitGroup
			for e := range allEngines {
				ew.Add(1)
				go func(e int) {
					defer ew.Done()
					for i := lo; i < hi; i++ {
						evs, _ := runProgram(allEngines[e], i+1, progs[i])
						bufs[e].Write(encodeTrace(evs))
					}
				}(e)
			}
			ew.Wait()
			res, err := tlc.Run(tlc.Options{Module: "BtEquiv", Cfg: "BtEquiv.cfg", HeapGB: 3, Timeout: 20 * time.Minute,
				Files: map[string][]byte{"a.ndjson": bufs[0].Bytes(), "b.ndjson": bufs[1].Bytes(), "c.ndjson": bufs[2].Bytes()}})
			if err != nil || res.ExitCode != 0 {
				c.Inconclusive("BtEquiv: %v %s", err, res.Tail(8))
				return
			}
			c.AddTraces(int64(3*(hi-lo)), int64(bytes.Count(bufs[0].Bytes(), []byte("\n"))*3))
			for _, p := range res.Tag("DIFFER") {
				var d diff
				if json.Unmarshal(p[0], &d) == nil {
					mu.Lock()
					diffs = append(diffs, d)
					mu.Unlock()
				}
			}
		}(lo, hi)
	}
	wg.Wait()
	// confirm each difference by re-running that program on the three engines
	seen := map[int]bool{}
	for _, d := range diffs {
		if seen[d.Tr] || len(seen) >= 25 {
			continue
		}
		seen[d.Tr] = true
		prog := progs[d.Tr-1]
		var files [3][]byte
		for e := range allEngines {
			evs, _ := runProgram(allEngines[e], 1, prog)
			files[e] = encodeTrace(evs)
		}
		res, err := tlc.Run(tlc.Options{Module: "BtEquiv", Cfg: "BtEquiv.cfg", HeapGB: 2,
			Files: map[string][]byte{"a.ndjson": files[0], "b.ndjson": files[1], "c.ndjson": files[2]}})
		if err != nil || res.ExitCode != 0 {
			c.Inconclusive("BtEquiv confirmation: %v", err)
			continue
		}
		ds := res.Tag("DIFFER")
		if len(ds) == 0 {
			c.Unreproduced("engine difference in program %d step %d did not reproduce", d.Tr, d.I)
			continue
		}
		var d2 diff
		_ = json.Unmarshal(ds[0][0], &d2)
		what := fmt.Sprintf("C17: engines disagree at step %d (%s): btree=leveldb-mem %v, btree=leveldb-disk %v", d2.I, d2.Ev, d2.Ab, d2.Ac)
		c.Violation("", what, map[string]interface{}{"kind": "bt-equiv", "program": stripProg(prog), "failing_step": d2.I})
	}
	// and each engine's trace must be a behaviour of the specification
	c.btValidate("C17", allEngines, progs, nil)
	c.Extra("engines", allEngines)
	c.Assume("TLC, the Json community module and the harness's request encoder / chunk decoder are trusted; SampleRowKeys' random sample is exempt from the comparison")
}

func replayEquiv(raw json.RawMessage) (bool, string) {
	var cs struct {
		Program []bt.Op `json:"program"`
	}
	if err := json.Unmarshal(raw, &cs); err != nil {
		return false, "inconclusive: " + err.Error()
	}
	var files [3][]byte
	for e := range allEngines {
		evs, _ := runProgram(allEngines[e], 1, cs.Program)
		files[e] = encodeTrace(evs)
	}
	res, err := tlc.Run(tlc.Options{Module: "BtEquiv", Cfg: "BtEquiv.cfg", HeapGB: 2,
		Files: map[string][]byte{"a.ndjson": files[0], "b.ndjson": files[1], "c.ndjson": files[2]}})
	if err != nil || res.ExitCode != 0 {
		return false, fmt.Sprintf("inconclusive: %v", err)
	}
	if ds := res.Tag("DIFFER"); len(ds) > 0 {
		return true, "engines disagree: " + string(ds[0][0])
	}
	return false, "the three engines agree on every event"
}

func init() { replayers["bt-equiv"] = replayEquiv }
