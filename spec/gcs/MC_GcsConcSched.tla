---- MODULE MC_GcsConcSched ----
EXTENDS MC_GcsConc
VARIABLE sched
svars == <<vars, sched>>
SInit == Init /\ sched = <<>>
SNext == \E p \in Procs : Step(p) /\ sched' = Append(sched, p)
SSpec == SInit /\ [][SNext]_svars
Bad == ~(OneWinner /\ SomeWinner /\ NoLostPatch /\ PatchOnMatch /\ ReadConsistent)
PrintSched == AllDone => PrintT(<<"SCHED", ToJson([mix |-> MixName, bad |-> Bad, steps |-> sched])>>)
====
