package main

import (
	"fmt"
	"math/rand"

	"verif/harness/internal/bt"
	"verif/harness/internal/btconc"
	"verif/harness/internal/j"
)

func init() { checks["C18"] = checkC18 }

// a table whose full scan spans several response messages: nrows rows of ncells cells (the scan gives up the
// table lock every > 1024 cells)
func scanSetup(nrows, ncells int) []bt.Op {
	ops := []bt.Op{{Ev: "CreateTable", T: concTable, Parent: btParent, Fams: []bt.FamDef{{F: j.S("f"), Rule: bt.Rule{T: "none"}}, {F: j.S("g"), Rule: bt.Rule{T: "none"}}}}}
	op := bt.Op{Ev: "MutateRows", T: concTable, Now: j.N64(concNow)}
	for i := 1; i <= nrows; i++ {
		var ms []bt.Mut
		for c := 0; c < ncells; c++ {
			ms = append(ms, bt.Mut{M: "set", F: j.S("g"), Q: j.S(fmt.Sprintf("c%02d", c)), Ts: 0, V: j.S("v")})
		}
		op.Entries = append(op.Entries, bt.Entry{K: rowKey(i), Muts: ms})
	}
	return append(ops, op)
}

// C18 Bigtable: scans stay sane while the table is being written (leveldb engines).
func checkC18(c *Ctx) {
	c.rule = "cases = a multi-message ReadRows scan (72 rows x 30 cells: the scan gives up the table lock after every 1025 cells, i.e. twice before its last message) interleaved with concurrent writers: (a) schedules = behaviours of the BtConc model for the mixes scan/scan2 (scan + two writers: two-mutation write, row delete, increment) mapped so that the writers touch rows before, at and after the scan position, executed through the hook gates (the scan parks in its lock-free windows), including DropRowRange(all) issued inside a window; (b) free-running runs with 8 writers; leveldb-mem and leveldb-disk engines; each recorded run validated by TLC (BtConcTrace: keys strictly ascending, every returned row equals a value that row had between scan start and end, untouched rows exactly as stored, status OK, final read-back); distinct = distinct (mix, schedule, engine); non-trivial = every case"
	r := rand.New(rand.NewSource(c.Seed))
	c.modelCheckConc([]string{"scan", "scan2"}, nil)
	nsim, keep := 400, 24
	if !c.Quick() {
		nsim, keep = 20000, 1500
	}
	var scheds []concSched
	for _, mix := range []string{"scan", "scan2"} {
		ss := c.schedulesConc(mix, false, false, nsim, keep, r)
		c.Extra("schedules_"+mix, len(ss))
		scheds = append(scheds, ss...)
	}
	engines := []string{"mem", "disk"}
	const nrows, ncells = 72, 30
	// abstract rows 1,2,3 -> rows before the first window, between the windows, after the last window
	concrete := map[int]int{1: 10, 2: 45, 3: 68}
	var jobs []concJob
	for n, s := range scheds {
		kinds, rows := mixKinds[s.Mix], mixRows[s.Mix]
		var procs []btconc.Proc
		for i, k := range kinds {
			row := concrete[rows[i]]
			if r.Intn(3) == 0 {
				row = 1 + r.Intn(nrows) // any position, including exactly at the scan position
			}
			procs = append(procs, btconc.Proc{Name: procName(i + 1), Op: concOp(k, rowKey(row), procName(i+1))})
		}
		// the model's scan takes about twice as many steps as the real one has gates: stretch the writers' steps
		var sched []string
		for _, p := range s.Steps {
			sched = append(sched, procName(p))
		}
		jb := concJob{engine: engines[n%2], setup: scanSetup(nrows, ncells), procs: procs, sched: sched, label: fmt.Sprintf("mix %s, schedule %v", s.Mix, s.Steps)}
		if n%7 == 3 { // clear the whole table while the scan is running (it lands in one of the scan's windows)
			jb.procs = append(jb.procs, btconc.Proc{Name: "p9", Op: bt.Op{Ev: "DropRowRange", T: concTable, All: true, Now: j.N64(concNow)}})
			pos := len(sched) / 2
			ins := []string{"p9", "p9", "p9"}
			jb.sched = append(append(append([]string{}, sched[:pos]...), ins...), sched[pos:]...)
			jb.label += fmt.Sprintf(", DropRowRange(all) from step %d", pos)
		}
		jobs = append(jobs, jb)
	}
	if len(scheds) > 0 {
		c.Sample(map[string]interface{}{"source": "behaviour of the BtConc model (scan mix) used as a schedule", "schedule": scheds[0]})
	}
	nStress := 8
	if !c.Quick() {
		nStress = 200
	}
	kinds := []string{"mut2", "del", "incr", "mut2", "incr", "del", "mrows", "cas"}
	for i := 0; i < nStress; i++ {
		procs := []btconc.Proc{{Name: "p1", Op: concOp("scan", nil, "p1")}}
		for p := 0; p < 8; p++ {
			procs = append(procs, btconc.Proc{Name: procName(p + 2), Op: concOp(kinds[(p+i)%len(kinds)], rowKey(1+r.Intn(nrows)), procName(p+2))})
		}
		jobs = append(jobs, concJob{engine: engines[i%2], setup: scanSetup(nrows, ncells), procs: procs, opt: btconc.Options{Free: true}, label: fmt.Sprintf("free-running scan + 8 writers %d", i)})
	}
	c.Extra("stress_runs", nStress)
	c.Extra("engines", engines)
	c.runConc("C18", jobs)
	c.Assume("TLC and the Json module are trusted; hooks are add-only one-liners under the build tag verif; the btree engine is out of scope (the repository documents that it does not offer this)")
}
