----------------------------- MODULE BtConcTrace ----------------------------
(***************************************************************************)
(* Trace specification for CONCURRENT executions of the Bigtable emulator  *)
(* (C06, C16 races, C18).  A run is the global log of instrumentation      *)
(* events of all in-flight requests of ONE table (events inside the table  *)
(* lock are logged while the lock is held, so their order is the lock      *)
(* order), plus the invocation and the reply of every request and a final  *)
(* read-back at quiescence.                                                *)
(*                                                                         *)
(* The specification replays the run against BtData with the lock          *)
(* protocol of BtConc:                                                     *)
(*  - a writer's events  locked .. done  form a critical section no other  *)
(*    request may enter; readers share;                                    *)
(*  - a write takes effect at its .afterWrite event (commit), computed by  *)
(*    BtData.Step on the state at that moment; a request that ends without *)
(*    commit must be one BtData says fails, and changes nothing;           *)
(*  - every reply must be the one BtData computes at the commit, so the    *)
(*    replies are explained by the serial order of the commits (each lies  *)
(*    between its request's invocation and reply: real-time order holds);  *)
(*  - a scan returns rows in ascending key order, each row equal to a      *)
(*    value that row had between the scan's start and end;                 *)
(*  - a GC pass collects, at each gc.row event, the row as it is then;     *)
(*  - the final read-back equals the final model state (no lost update).   *)
(***************************************************************************)
EXTENDS BtData, Json, TLC

Runs == ndJsonDeserialize("trace.ndjson")      \* one run per line: [id, setup : Seq(op), events : Seq(event), final : obs]

VARIABLES run, l, st, ops, exp, holder, readers, scans, pend, dead
tvars == <<run, l, st, ops, exp, holder, readers, scans, pend, dead>>

Live == run <= Len(Runs)
CurRun == Runs[run]
E == CurRun.events[l]

NoneP == "-"
RECURSIVE RunSetup(_, _)
RunSetup(s, setup) == IF setup = <<>> THEN s ELSE RunSetup((CHOOSE o \in Step(s, Head(setup)) : o.resp.ok).st, Tail(setup))
StartOf(r) == RunSetup(InitSt, Runs[r].setup)

Init == /\ run = 1 /\ l = 1 /\ dead = FALSE /\ TLCSet(1, 1) /\ TLCSet(2, 1)
        /\ st = IF Len(Runs) > 0 THEN StartOf(1) ELSE InitSt
        /\ ops = <<>> /\ exp = <<>> /\ holder = NoneP /\ readers = {} /\ scans = <<>> /\ pend = <<>>

Put(f, k, v) == [x \in (DOMAIN f) \cup {k} |-> IF x = k THEN v ELSE f[x]]
Del(f, k) == [x \in (DOMAIN f) \ {k} |-> f[x]]
Op(p) == ops[p]
IsWriteEv(ev) == ev \in {"MutateRow", "MutateRows", "CheckAndMutate", "ReadModifyWrite", "DropRowRange", "GcPass"}
RowsNow(s, t) == IF t \in DOMAIN s.tables THEN s.tables[t].rows ELSE <<>>

\* every active scan records the new value of a row that changes (NoRow when it disappears)
NoteWrites(old, new) ==
  [p \in DOMAIN scans |->
     LET t == ops[p].t
         ro == RowsNow(old, t)  rn == RowsNow(new, t)
         ch == {k \in (DOMAIN ro) \cup (DOMAIN rn) : (k \in DOMAIN ro) # (k \in DOMAIN rn) \/ (k \in DOMAIN ro /\ ro[k] # rn[k])}
     IN [scans[p] EXCEPT !.writes = @ \cup {<<k, IF k \in DOMAIN rn THEN rn[k] ELSE NoRow>> : k \in ch}]]

\* the values row k may legitimately show to scan p
Versions(p, k) == {IF k \in DOMAIN scans[p].base THEN scans[p].base[k] ELSE NoRow} \cup {w[2] : w \in {x \in scans[p].writes : x[1] = k}}

ScanRetOK(p, got) ==         \* got: [code, rows : Seq([k, cols])]
  /\ got.code = 0
  /\ \A i \in 1..(Len(got.rows) - 1) : BLess(got.rows[i].k, got.rows[i+1].k)
  /\ \A i \in 1..Len(got.rows) : \E v \in Versions(p, got.rows[i].k) : v # NoRow /\ ObsRowOK(got.rows[i].cols, v)
  \* a row that is not returned was absent at some instant of the scan (if it lies in the requested set)
  /\ LET wanted == Denot(ops[p].rs, (DOMAIN scans[p].base) \cup {w[1] : w \in scans[p].writes})
         gotKeys == {got.rows[i].k : i \in 1..Len(got.rows)}
     IN /\ \A k \in wanted \ gotKeys : NoRow \in Versions(p, k)
        /\ gotKeys \subseteq wanted               \* and nothing outside the requested set is returned

RespMatches(p, got) ==
  LET ev == ops[p].ev  x == exp[p] IN
  /\ (got.code = 0) = x.ok
  /\ x.code >= 0 => got.code = x.code
  /\ x.ok => CASE ev = "MutateRows" -> /\ Len(got.entries) = Len(x.entries)
                                       /\ \A i \in 1..Len(got.entries) : (got.entries[i] = 0) = x.entries[i]
               [] ev = "CheckAndMutate" -> got.matched = x.matched
               [] ev = "ReadModifyWrite" -> ObsRowOK(got.row, x.row)
               [] OTHER -> TRUE

\* ---- one event ----
Ev ==
  LET e == E  p == e.p IN
  CASE e.pt = "inv" ->
         /\ ops' = Put(ops, p, e.op) /\ exp' = Del(exp, p) /\ pend' = Put(pend, p, [i |-> 0, open |-> FALSE, stats |-> <<>>, committed |-> FALSE])
         /\ UNCHANGED <<st, holder, readers, scans>>
    [] e.pt = "beforeLock" -> UNCHANGED <<st, ops, exp, holder, readers, scans, pend>>
    [] e.pt = "locked" ->
         IF ops[p].ev = "ReadRows"
         THEN /\ holder = NoneP /\ readers' = readers \cup {p}
              /\ scans' = IF p \in DOMAIN scans THEN scans ELSE Put(scans, p, [base |-> RowsNow(st, ops[p].t), writes |-> {}])
              /\ UNCHANGED <<st, ops, exp, holder, pend>>
         ELSE /\ holder = NoneP /\ readers = {} /\ holder' = p
              \* a GC pass remembers the rows it started with, the rows it has collected and what changes meanwhile
              /\ scans' = IF ops[p].ev = "GcPass" /\ p \notin DOMAIN scans
                          THEN Put(scans, p, [base |-> RowsNow(st, ops[p].t), writes |-> {}, done |-> {}]) ELSE scans
              /\ UNCHANGED <<st, ops, exp, readers, pend>>
    [] e.pt = "relocked" ->
         IF ops[p].ev = "ReadRows" THEN holder = NoneP /\ readers' = readers \cup {p} /\ UNCHANGED <<st, ops, exp, holder, scans, pend>>
         ELSE holder = NoneP /\ readers = {} /\ holder' = p /\ UNCHANGED <<st, ops, exp, readers, scans, pend>>
    [] e.pt = "preWindow" ->
         IF ops[p].ev = "ReadRows" THEN p \in readers /\ readers' = readers \ {p} /\ UNCHANGED <<st, ops, exp, holder, scans, pend>>
         ELSE holder = p /\ holder' = NoneP /\ UNCHANGED <<st, ops, exp, readers, scans, pend>>
    [] e.pt = "window" -> UNCHANGED <<st, ops, exp, holder, readers, scans, pend>>
    [] e.pt = "afterRead" ->
         /\ holder = p
         \* MutateRows: a new entry begins; an entry that was read but not written has failed
         /\ pend' = [pend EXCEPT ![p] = [i |-> @.i + 1, open |-> TRUE, committed |-> @.committed,
                                          stats |-> IF @.open THEN Append(@.stats, FALSE) ELSE @.stats]]
         /\ UNCHANGED <<st, ops, exp, holder, readers, scans>>
    [] e.pt = "afterWrite" ->        \* COMMIT
         /\ holder = p
         /\ IF ops[p].ev = "MutateRows"
            THEN LET en == ops[p].entries[pend[p].i]
                     tb == st.tables[ops[p].t]
                 IN \E o \in Apply(RowOf(st, ops[p].t, en.k), DOMAIN tb.fams, en.muts, ops[p].now) :
                      /\ o.ok /\ en.k = e.k
                      /\ st' = WithRow(st, ops[p].t, en.k, o.row)
                      /\ pend' = [pend EXCEPT ![p] = [i |-> @.i, open |-> FALSE, committed |-> TRUE, stats |-> Append(@.stats, TRUE)]]
                      /\ UNCHANGED exp
            ELSE \E o \in Step(st, ops[p]) :
                      /\ o.resp.ok /\ st' = o.st /\ exp' = Put(exp, p, o.resp)
                      /\ pend' = [pend EXCEPT ![p].committed = TRUE, ![p].open = FALSE]
         /\ scans' = NoteWrites(st, st')
         /\ UNCHANGED <<ops, holder, readers>>
    [] e.pt = "done" ->
         IF ops[p].ev = "ReadRows"
         THEN /\ p \in readers /\ readers' = readers \ {p} /\ UNCHANGED <<st, ops, exp, holder, scans, pend>>
         ELSE /\ holder = p /\ holder' = NoneP
              /\ IF ops[p].ev = "MutateRows"
                 THEN LET stats == IF pend[p].open THEN Append(pend[p].stats, FALSE) ELSE pend[p].stats IN
                      /\ exp' = Put(exp, p, [ok |-> TRUE, code |-> 0, entries |-> stats])
                      \* the entries that did not commit are ones the specification says fail, in the state they met
                      /\ UNCHANGED <<st, scans>>
                 ELSE IF ops[p].ev = "GcPass"
                      THEN \* the pass is complete: every row that was there when it began and that nobody touched meanwhile
                           \* has either been collected (a gc.row event) or holds nothing the rules condemn
                           /\ exp' = Put(exp, p, OkResp) /\ UNCHANGED st
                           /\ (p \in DOMAIN scans) =>
                                 LET t == ops[p].t
                                     touched == {w[1] : w \in scans[p].writes}
                                 IN (\A k \in (DOMAIN scans[p].base) \ (scans[p].done \cup touched) :
                                        k \in DOMAIN RowsNow(st, t) =>
                                          GcRow(RowsNow(st, t)[k], st.tables[t].fams, ops[p].now) = RowsNow(st, t)[k]) = TRUE
                           /\ scans' = IF p \in DOMAIN scans THEN Del(scans, p) ELSE scans
                 ELSE IF pend[p].committed THEN UNCHANGED <<st, exp, scans>>
                 ELSE \* ended without a commit: must be a request BtData fails (or one that changes nothing)
                      \E o \in Step(st, ops[p]) : (~o.resp.ok \/ o.st = st) /\ exp' = Put(exp, p, o.resp) /\ UNCHANGED <<st, scans>>
              /\ UNCHANGED <<ops, readers, pend>>
    [] e.pt = "gc.row" ->            \* the pass collects row e.k as it is now
         /\ holder = p
         /\ LET t == ops[p].t IN
            IF t \in DOMAIN st.tables /\ e.k \in DOMAIN st.tables[t].rows
            THEN st' = WithRow(st, t, e.k, GcRow(st.tables[t].rows[e.k], st.tables[t].fams, ops[p].now))
            ELSE st' = st
         /\ scans' = LET nw == NoteWrites(st, st') IN
                     IF p \in DOMAIN nw THEN [nw EXCEPT ![p].done = @ \cup {e.k}] ELSE nw
         /\ UNCHANGED <<ops, exp, holder, readers, pend>>
    [] e.pt = "direct" ->            \* a request without instrumentation (table admin): atomic at this point
         /\ holder = NoneP /\ readers = {}
         /\ \E o \in Step(st, e.op) : /\ (e.resp.code = 0) = o.resp.ok /\ st' = o.st
         /\ scans' = NoteWrites(st, st')
         /\ UNCHANGED <<ops, exp, holder, readers, pend>>
    [] e.pt = "ret" ->
         /\ IF ops[p].ev = "ReadRows" THEN (ScanRetOK(p, e.resp) = TRUE) /\ scans' = Del(scans, p)
            ELSE IF p \in DOMAIN exp THEN (RespMatches(p, e.resp) = TRUE) /\ UNCHANGED scans
            ELSE \* never reached the table lock: rejected up front (unknown table ...)
                 (\E o \in Step(st, ops[p]) : ~o.resp.ok /\ e.resp.code # 0 /\ (o.resp.code >= 0 => e.resp.code = o.resp.code)) /\ UNCHANGED scans
         /\ UNCHANGED <<st, ops, exp, holder, readers, pend>>
    [] OTHER -> FALSE

\* final read-back at quiescence (same acceptance as BtTrace.ObsTableOK, restated here)
FamsOK(got, fams) == /\ {got[i].f : i \in 1..Len(got)} = DOMAIN fams /\ \A i \in 1..Len(got) : got[i].rule = fams[got[i].f]
FinalOK == /\ holder = NoneP /\ readers = {}
           /\ {CurRun.final.tables[i].t : i \in 1..Len(CurRun.final.tables)} = DOMAIN st.tables
           /\ \A i \in 1..Len(CurRun.final.tables) :
                LET x == CurRun.final.tables[i]  tb == st.tables[x.t] IN
                /\ FamsOK(x.fams, tb.fams)
                /\ [n \in 1..Len(x.rows) |-> x.rows[n].k] = SortBytes(DOMAIN tb.rows)
                /\ \A n \in 1..Len(x.rows) : ObsRowOK(x.rows[n].cols, tb.rows[x.rows[n].k])
                /\ SampleOK(x.samp, DOMAIN tb.rows)

NextRun == /\ run' = run + 1 /\ l' = 1 /\ dead' = FALSE
           /\ st' = IF run + 1 <= Len(Runs) THEN StartOf(run + 1) ELSE InitSt
           /\ ops' = <<>> /\ exp' = <<>> /\ holder' = NoneP /\ readers' = {} /\ scans' = <<>> /\ pend' = <<>>

\* TLC simply cannot take a step when an event (or the final read-back) is not explained: the run index and event
\* index it reached (high-water mark, kept in TLC registers; needs -workers 1) identify the first unexplained event
Next == /\ Live
        /\ IF l <= Len(CurRun.events) THEN Ev /\ l' = l + 1 /\ UNCHANGED <<run, dead>>
           ELSE (FinalOK = TRUE) /\ NextRun     \* "= TRUE": evaluated as a state predicate (TLC would otherwise unfold the quantifiers of an action-level formula recursively)
\* registers: 1 = furthest run reached, 2 = furthest event index reached within that run
Mark == IF run > TLCGet(1) THEN TLCSet(1, run) /\ TLCSet(2, l)
        ELSE IF run = TLCGet(1) /\ l > TLCGet(2) THEN TLCSet(2, l) ELSE TRUE
Report == PrintT(<<"HIGHWATER", ToJson([run |-> TLCGet(1), l |-> TLCGet(2), total |-> Len(Runs)])>>)
Spec == Init /\ [][Next]_tvars
InvCanonical == Canonical(st)
=============================================================================
