package main

import (
	"bytes"
	"encoding/json"
	"fmt"
	"sort"
	"sync"
	"time"

	"verif/harness/internal/gcs"
	"verif/harness/internal/j"
	"verif/harness/internal/tlc"
)

var allStores = []string{"mem", "file"}

func runGcsProgram(store string, tr int, prog []gcs.Op) []gcs.Op {
	dir := ""
	if store == "file" {
		dir = tmpDir()
	}
	s, err := gcs.Start(store, dir)
	if err != nil {
		panic(err)
	}
	defer s.CloseAndRemove()
	evs := s.Run(tr, prog)
	// deep copy before ranking so that Obs pointers shared with the server state are not an issue
	b, _ := json.Marshal(struct{}{})
	_ = b
	gcs.RankGens(evs)
	return evs
}

func encodeGcsTrace(evs []gcs.Op) []byte {
	var buf bytes.Buffer
	for i := range evs {
		buf.Write(j.Line(evs[i]))
	}
	return buf.Bytes()
}

func validateGcs(trace []byte) ([]btReject, error) {
	res, err := tlc.Run(tlc.Options{Module: "GcsTrace", Cfg: "GcsTrace.cfg", Files: map[string][]byte{"trace.ndjson": trace}, Timeout: 20 * time.Minute, HeapGB: 3})
	if err != nil {
		return nil, err
	}
	if res.ExitCode != 0 {
		return nil, fmt.Errorf("TLC GcsTrace exit %d: %s", res.ExitCode, res.Tail(15))
	}
	var out []btReject
	for _, p := range res.Tag("REJECT") {
		var r struct {
			Tr  int    `json:"tr"`
			I   int    `json:"i"`
			Ev  string `json:"ev"`
			Why string `json:"why"`
		}
		if len(p) > 0 && json.Unmarshal(p[0], &r) == nil {
			out = append(out, btReject{Tr: r.Tr, I: r.I, Ev: r.Ev, Why: r.Why})
		}
	}
	return out, nil
}

func stripGcs(p []gcs.Op) []gcs.Op {
	out := make([]gcs.Op, len(p))
	for i := range p {
		out[i] = p[i]
		out[i].Resp, out[i].Obs = nil, nil
	}
	return out
}

func describeGcs(p []gcs.Op) string {
	b, _ := json.Marshal(stripGcs(p))
	return string(b)
}

type gcsCase struct {
	Kind    string   `json:"kind"`
	Store   string   `json:"store"`
	Program []gcs.Op `json:"program"`
	Step    int      `json:"failing_step"`
	Why     string   `json:"why"`
	Event   *gcs.Op  `json:"observed_event,omitempty"`
}

// gcsValidate: every program on every store, TLC validation, confirmation of each rejection by re-execution.
func (c *Ctx) gcsValidate(label string, stores []string, progs [][]gcs.Op, classify func(store string, prog []gcs.Op, rej btReject, ev *gcs.Op) string) {
	if len(progs) == 0 {
		return
	}
	type shard struct {
		store  string
		lo, hi int
	}
	per := 150
	var shards []shard
	for _, s := range stores {
		for lo := 0; lo < len(progs); lo += per {
			shards = append(shards, shard{s, lo, min(lo+per, len(progs))})
		}
	}
	sem := make(chan struct{}, 14)
	var wg sync.WaitGroup
	var mu sync.Mutex
	var rejects []btReject
	for _, sh := range shards {
		wg.Add(1)
		go func(sh shard) {
			defer wg.Done()
			sem <- struct{}{}
			defer func() { <-sem }()
			var buf bytes.Buffer
			n := 0
			for i := sh.lo; i < sh.hi; i++ {
				evs := runGcsProgram(sh.store, i+1, progs[i])
				n += len(evs)
				buf.Write(encodeGcsTrace(evs))
			}
			rj, err := validateGcs(buf.Bytes())
			if err != nil {
				c.Inconclusive("%s/%s trace validation: %v", label, sh.store, err)
				return
			}
			c.AddTraces(int64(sh.hi-sh.lo), int64(n))
			mu.Lock()
			for _, r := range rj {
				r.Engine = sh.store
				rejects = append(rejects, r)
			}
			mu.Unlock()
		}(sh)
	}
	wg.Wait()
	sort.Slice(rejects, func(a, b int) bool {
		if rejects[a].Tr != rejects[b].Tr {
			return rejects[a].Tr < rejects[b].Tr
		}
		return rejects[a].Engine < rejects[b].Engine
	})
	// one confirmation run per rejected (program, store); every rejection of the re-executed run is reported
	// (a known finding early in a program must not hide a different violation later in it)
	done := map[string]bool{}
	n := 0
	for _, r := range rejects {
		key := fmt.Sprint(r.Tr, "/", r.Engine)
		if done[key] {
			continue
		}
		done[key] = true
		if n++; n > 40 {
			fmt.Printf("  (further rejected traces not individually confirmed)\n")
			break
		}
		prog := progs[r.Tr-1]
		evs := runGcsProgram(r.Engine, 1, prog)
		rj, err := validateGcs(encodeGcsTrace(evs))
		if err != nil {
			c.Inconclusive("%s/%s confirmation of trace %d: %v", label, r.Engine, r.Tr, err)
			continue
		}
		if len(rj) == 0 {
			c.Unreproduced("%s/%s: rejection of trace %d step %d (%s) did not reproduce", label, r.Engine, r.Tr, r.I, r.Ev)
			continue
		}
		for _, x := range rj {
			step := x.I
			var ev *gcs.Op
			if step < len(evs) {
				ev = &evs[step]
			}
			id := ""
			if classify != nil {
				id = classify(r.Engine, prog, x, ev)
			}
			what := fmt.Sprintf("%s: store %s: step %d (%s) of the recorded program is not a behaviour of the specification (%s does not match)", label, r.Engine, step, x.Ev, x.Why)
			c.Violation(id, what, gcsCase{Kind: "gcs-seq", Store: r.Engine, Program: stripGcs(prog), Step: step, Why: x.Why, Event: ev})
		}
	}
}

func init() {
	replayers["gcs-seq"] = func(raw json.RawMessage) (bool, string) {
		var cs gcsCase
		if err := json.Unmarshal(raw, &cs); err != nil {
			return false, "inconclusive: " + err.Error()
		}
		evs := runGcsProgram(cs.Store, 1, cs.Program)
		rj, err := validateGcs(encodeGcsTrace(evs))
		if err != nil {
			return false, "inconclusive: " + err.Error()
		}
		if len(rj) == 0 {
			return false, "accepted: the recorded program is a behaviour of the specification"
		}
		ev := evs[rj[0].I]
		resp, _ := json.Marshal(ev.Resp)
		obs, _ := json.Marshal(ev.Obs)
		ev.Resp, ev.Obs = nil, nil
		b, _ := json.Marshal(ev)
		return true, fmt.Sprintf("rejected at step %d (%s, %s)\n  request: %.1500s\n  reply: %.3000s\n  read-back: %.3000s", rj[0].I, rj[0].Ev, rj[0].Why, b, resp, obs)
	}
}
