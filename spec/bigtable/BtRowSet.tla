------------------------------ MODULE BtRowSet ------------------------------
(***************************************************************************)
(* Denotation of a ReadRows RowSet (C03) and the implementation-shaped     *)
(* scan plan (half-open encoding with key \o <<0>>, sort, merge).          *)
(* rs = [keys |-> Seq(bytes), ranges |-> Seq([sk, s, ek, e])],             *)
(* sk, ek \in {"none", "open", "closed"}.                                  *)
(***************************************************************************)
EXTENDS Bytes, Integers, Sequences, FiniteSets

InRange(r, k) ==
  /\ CASE r.sk = "none" -> TRUE [] r.sk = "open" -> BLess(r.s, k) [] OTHER -> BLe(r.s, k)
  /\ CASE r.ek = "none" -> TRUE [] r.ek = "open" -> BLess(k, r.e) [] OTHER -> BLe(k, r.e)

EmptySet(rs) == Len(rs.keys) = 0 /\ Len(rs.ranges) = 0

\* a range whose start exceeds its end is rejected with InvalidArgument
Invalid(rs) == \E i \in 1..Len(rs.ranges) :
                 LET r == rs.ranges[i] IN r.sk # "none" /\ r.ek # "none" /\ BLess(r.e, r.s)

Denot(rs, K) ==
  IF EmptySet(rs) THEN K
  ELSE {k \in K : (\E i \in 1..Len(rs.keys) : rs.keys[i] = k) \/ (\E i \in 1..Len(rs.ranges) : InRange(rs.ranges[i], k))}

(***************************************************************************)
(* Implementation shape (mergeRowRanges): every member becomes a half-open *)
(* [start, end) with <<>> = unbounded; sorted by start then end; merged    *)
(* when not disjoint; each merged range scanned once.                      *)
(***************************************************************************)
Enc(rs) ==
  [i \in 1..Len(rs.keys) |-> [s |-> rs.keys[i], e |-> Succ0(rs.keys[i])]] \o
  [i \in 1..Len(rs.ranges) |->
     LET r == rs.ranges[i] IN
     [s |-> CASE r.sk = "none" -> <<>> [] r.sk = "open" -> Succ0(r.s) [] OTHER -> r.s,
      e |-> CASE r.ek = "none" -> <<>> [] r.ek = "closed" -> Succ0(r.e) [] OTHER -> r.e]]

EndLess(a, b) == a # <<>> /\ (b = <<>> \/ BLess(a, b))           \* <<>> = +infinity
SrLess(x, y) == BLess(x.s, y.s) \/ (x.s = y.s /\ EndLess(x.e, y.e))

RECURSIVE SortSr(_)
SortSr(S) == IF S = {} THEN <<>>
             ELSE LET m == CHOOSE x \in S : \A y \in S : x = y \/ SrLess(x, y) IN <<m>> \o SortSr(S \ {m})

RECURSIVE MergeSr(_, _)
MergeSr(done, rest) ==
  IF rest = <<>> THEN done
  ELSE IF done = <<>> THEN MergeSr(<<Head(rest)>>, Tail(rest))
  ELSE LET a == done[Len(done)]  b == Head(rest) IN
       IF a.e # <<>> /\ BLess(a.e, b.s) THEN MergeSr(Append(done, b), Tail(rest))
       ELSE MergeSr([done EXCEPT ![Len(done)] = [s |-> a.s, e |-> IF EndLess(a.e, b.e) THEN b.e ELSE a.e]], Tail(rest))

Plan(rs) == LET e == Enc(rs) IN MergeSr(<<>>, SortSr({e[i] : i \in 1..Len(e)}))

InSr(x, k) == (x.s = <<>> \/ BLe(x.s, k)) /\ (x.e = <<>> \/ BLess(k, x.e))
\* the keys the implementation-shaped plan visits, in visiting order
ScanImpl(rs, K) ==
  IF EmptySet(rs) THEN SortBytes(K)
  ELSE LET p == Plan(rs) IN ConcatAll([i \in 1..Len(p) |-> SortBytes({k \in K : InSr(p[i], k)})])

\* refinement statement checked by TLC over the adversarial universe (MC_RowSet)
PlanCorrect(rs, K) == ~Invalid(rs) => ScanImpl(rs, K) = SortBytes(Denot(rs, K))

(***************************************************************************)
(* SampleRowKeys: an ascending subsequence of the stored keys ending with  *)
(* the greatest one; offsets non-decreasing.  samp = Seq([k, off])         *)
(***************************************************************************)
SampleOK(samp, K) ==
  /\ \A i \in 1..Len(samp) : samp[i].k \in K
  /\ \A i \in 1..(Len(samp) - 1) : BLess(samp[i].k, samp[i+1].k) /\ samp[i].off <= samp[i+1].off
  /\ (K = {}) <=> (Len(samp) = 0)
  /\ K # {} => \A k \in K : BLe(k, samp[Len(samp)].k)
=============================================================================
