--------------------------- MODULE MC_GcsResumable --------------------------
(***************************************************************************)
(* C02: the resumable-upload protocol.  A client holds a payload P and     *)
(* may, in any order: send a fresh chunk, re-send or overlap an earlier    *)
(* range (any lo <= what is persisted), with the total known or "*", or    *)
(* query the status ("bytes * / N" or "* / *").  Invariant: the server's   *)
(* session is always a prefix of P, and the object stored at completion    *)
(* is exactly P.                                                           *)
(***************************************************************************)
EXTENDS GcsMCBase, SequencesExt

CONSTANTS PayloadLen, MaxPuts

B1 == <<98, 49>>
N1 == <<114>>
P == [i \in 1..PayloadLen |-> 96 + i]          \* the bytes a, b, c, ...
Md5Of(c) == <<109, 100, 53>> \o c
None == CondsOf(U, U, U, U)

Init == InitWith(<<[ev |-> "CreateBucket", b |-> B1],
                   [ev |-> "ResumableStart", b |-> B1, n |-> N1, decl |-> "none", attrs |-> <<>>, meta |-> <<>>, conds |-> None, id |-> 1]>>)

Have == IF 1 \in DOMAIN st.uploads THEN Len(st.uploads[1].data) ELSE 0
Open == 1 \in DOMAIN st.uploads
\* an honest client: slices of P starting at or before what the server holds; total is |P| or unknown
Chunk == /\ Open
         /\ \E lo \in 0..Have, hi \in 1..PayloadLen, tot \in {-1, PayloadLen} :
              /\ lo < hi
              /\ Do([ev |-> "ResumablePut", id |-> 1, ref |-> 2, lo |-> lo, total |-> tot, data |-> SubSeq(P, lo + 1, hi),
                     md5full |-> Md5Of(P), gen |-> NextGen(st), method |-> "PUT"])
Query == /\ Open
         /\ \E tot \in {-1, PayloadLen} :
              Do([ev |-> "ResumablePut", id |-> 1, ref |-> 2, lo |-> -1, total |-> tot, data |-> <<>>,
                  md5full |-> Md5Of(P), gen |-> NextGen(st), method |-> "PUT"])
\* a chunk that leaves a gap is refused and changes nothing
Gap   == /\ Open /\ Have + 1 < PayloadLen
         /\ Do([ev |-> "ResumablePut", id |-> 1, ref |-> 2, lo |-> Have + 1, total |-> -1, data |-> SubSeq(P, Have + 2, PayloadLen),
                md5full |-> Md5Of(P), gen |-> NextGen(st), method |-> "PUT"])
After == /\ ~Open
         /\ Do([ev |-> "ResumablePut", id |-> 1, ref |-> 2, lo |-> -1, total |-> -1, data |-> <<>>, md5full |-> Md5Of(P), gen |-> NextGen(st), method |-> "PUT"])

Next == Chunk \/ Query \/ Gap \/ After
Spec == Init /\ [][Next]_vars
NPuts == Cardinality({i \in 1..Len(path) : path[i].ev = "ResumablePut"})
Constr == NPuts <= MaxPuts /\ Dump

InvPrefix == Open => IsPrefix(st.uploads[1].data, P)
InvComplete == HasObj(st, B1, N1) => (Obj(st, B1, N1).content = P /\ ~Open)
=============================================================================
