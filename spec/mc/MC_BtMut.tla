------------------------------ MODULE MC_BtMut ------------------------------
(***************************************************************************)
(* Bounded model of BtData for the mutation semantics (C01, C06 failure    *)
(* atomicity): one table with families f and g, keys a and a\x00, every    *)
(* single mutation and (optionally) every two-mutation list from a         *)
(* boundary universe of families, qualifiers, timestamps and values.       *)
(*                                                                         *)
(* TLC (a) checks the design invariants in every reachable state and (b)   *)
(* with DumpEdges = TRUE prints, for every generated transition, the       *)
(* request history that produces it (BFS path of the source state + the    *)
(* request); the harness replays those histories on the real emulator.     *)
(***************************************************************************)
EXTENDS MCBase

CONSTANTS MaxCells,      \* state constraint: at most this many cells in the table
          Pairs,         \* TRUE: also all two-mutation lists
          TwoKeys        \* TRUE: keys a and a\x00, FALSE: only a

TName  == <<116, 49>>                 \* "t1" (the harness maps it to a full table name)
Parent == <<112>>
FamF == <<102>>  FamG == <<103>>  FamU == <<117>>      \* u is not in the schema
Keys == IF TwoKeys THEN {<<97>>, <<97, 0>>} ELSE {<<97>>}
Quals == {<<>>, <<113>>}
Vals == {<<120>>, <<121>>}
T1 == <<0, 0, 0, 1000>>  T2 == <<0, 0, 0, 2000>>
GoodTs == {Zero64, T1, T2, MaxValidTs}
BadTs  == {<<1, 0, 0, 1000>>, <<0, 0, 0, 1500>>, <<0, 9223372, 36854, 775807>>}
AllTs  == GoodTs \cup BadTs \cup {ServerTimeTs}
Clocks == {<<0, 0, 0, 2000>>, <<0, 0, 0, 3700>>}

SetMuts == {[m |-> "set", f |-> f, q |-> q, ts |-> t, v |-> v] : f \in {FamF, FamG, FamU}, q \in Quals, t \in AllTs, v \in Vals}
Ranges == {<<0, Zero64, Zero64>>, <<1, Zero64, Zero64>>, <<1, T1, T2>>, <<1, T1, Zero64>>, <<1, Zero64, T2>>,
           <<1, T2, T1>>, <<1, <<0, 0, 0, 1500>>, Zero64>>, <<1, T1, <<0, 0, 0, 2500>>>>, <<1, T2, T2>>,
           <<1, <<1, 0, 0, 1000>>, T2>>}
DelColMuts == {[m |-> "delcol", f |-> f, q |-> q, r |-> r[1], s |-> r[2], e |-> r[3]] : f \in {FamF, FamG, FamU}, q \in Quals, r \in Ranges}
DelFamMuts == {[m |-> "delfam", f |-> f] : f \in {FamF, FamG, FamU}}
OtherMuts  == {[m |-> "delrow"], [m |-> "none"]}
Muts == SetMuts \cup DelColMuts \cup DelFamMuts \cup OtherMuts

\* second elements of two-mutation lists: a smaller set rich in failures
Muts2 == {m \in Muts : (m.m = "set" => (m.q = <<113>> /\ m.v = <<121>> /\ m.ts \in {T1, <<0, 0, 0, 1500>>, ServerTimeTs} /\ m.f # FamG))
                    /\ (m.m = "delcol" => (m.q = <<113>> /\ m.f # FamG /\ <<m.r, m.s, m.e>> \in {<<0, Zero64, Zero64>>, <<1, T2, T1>>, <<1, T1, T2>>}))}

CreateOp == [ev |-> "CreateTable", t |-> TName, parent |-> Parent,
             fams |-> <<[f |-> FamF, rule |-> [t |-> "none"]], [f |-> FamG, rule |-> [t |-> "none"]]>>]

Init == InitWith(<<CreateOp>>)

MutateOne  == \E k \in Keys, m \in Muts, now \in Clocks :
                Do([ev |-> "MutateRow", t |-> TName, k |-> k, muts |-> <<m>>, now |-> now])
MutateTwo  == /\ Pairs
              /\ \E k \in Keys, m1 \in Muts, m2 \in Muts2 :
                   Do([ev |-> "MutateRow", t |-> TName, k |-> k, muts |-> <<m1, m2>>, now |-> <<0, 0, 0, 3700>>])
MutateBulk == /\ Pairs
              /\ \E k1 \in Keys, k2 \in Keys, m1 \in Muts2, m2 \in Muts2, m3 \in Muts2 :
                   Do([ev |-> "MutateRows", t |-> TName, now |-> <<0, 0, 0, 3700>>,
                       entries |-> <<[k |-> k1, muts |-> <<m1, m2>>], [k |-> k2, muts |-> <<m3>>]>>])

Next == MutateOne \/ MutateTwo \/ MutateBulk
Spec == Init /\ [][Next]_vars

Bound == TotalCells(st) <= MaxCells
Constr == Bound /\ Dump
=============================================================================
