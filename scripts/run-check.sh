#!/bin/bash
# usage: scripts/run-check.sh <property> <quick|thorough>
# Rebuilds the harness against /repo's CURRENT working tree (hooks on: -tags verif) and runs one check.
# exit 0: held on everything explored; 1: VIOLATION printed; 2: inconclusive (build/TLC/driver problem).
cd /verif || exit 2
export GOFLAGS=-mod=mod GOPROXY=off GOTOOLCHAIN=local GONOSUMDB='*' GONOSUMCHECK=1 GOFLAGS="-mod=mod"
export VERIF_SCRATCH="${VERIF_SCRATCH:-${TMPDIR:-/tmp}}"
mkdir -p bin
if ! (cd harness && go build -tags verif -o /verif/bin/verif ./cmd/verif \
      && go build -tags verif -o /verif/bin/cbtemulator github.com/fullstorydev/emulators/bigtable/cmd/cbtemulator \
      && go build -tags verif -o /verif/bin/gcsemulator github.com/fullstorydev/emulators/storage/cmd/gcsemulator) >bin/build.log 2>&1; then
  echo "INCONCLUSIVE: harness build failed"; tail -20 bin/build.log; exit 2
fi
if [ "$1" = "C20" ]; then
  # the concurrent request mixes of C20 run in a harness built with the race detector
  if ! (cd harness && go build -race -tags verif -o /verif/bin/verif-race ./cmd/verif) >>bin/build.log 2>&1; then
    echo "INCONCLUSIVE: race-detector build of the harness failed"; tail -20 bin/build.log; exit 2
  fi
fi
exec bin/verif check --property "$1" --tier "${2:-quick}"
