SPECIFICATION Spec
INVARIANT SameLength
POSTCONDITION Consumed
CHECK_DEADLOCK FALSE
