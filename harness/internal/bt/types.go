// Package bt drives the real Bigtable emulator (bttest) and records what it does in the event format
// that spec/bigtable/BtTrace.tla validates. It contains NO oracle logic: it issues requests, decodes
// replies and read-backs, and writes them down.
package bt

import (
	"encoding/json"

	"verif/harness/internal/j"
)

type Cell struct {
	Ts  j.N64 `json:"ts"`
	V   j.B   `json:"v"`
	Lab []j.B `json:"lab"`
}

type Col struct {
	F     j.B    `json:"f"`
	Q     j.B    `json:"q"`
	Cells []Cell `json:"cells"`
}

type Row struct {
	K    j.B   `json:"k"`
	Cols []Col `json:"cols"`
}

// Rule is a GC rule: t in none|maxver|maxage|union|inter.
type Rule struct {
	T     string `json:"t"`
	N     int    `json:"n"`
	Us    j.N64  `json:"us"`
	Rules []Rule `json:"rules"`
}

type FamDef struct {
	F    j.B  `json:"f"`
	Rule Rule `json:"rule"`
}

// Mod is one ModifyColumnFamilies modification: k in create|update|drop|none.
type Mod struct {
	K    string `json:"k"`
	F    j.B    `json:"f"`
	Rule Rule   `json:"rule"`
}

// Mut is one mutation: m in set|delcol|delfam|delrow|none.
type Mut struct {
	M  string `json:"m"`
	F  j.B    `json:"f"`
	Q  j.B    `json:"q"`
	Ts j.N64  `json:"ts"`
	V  j.B    `json:"v"`
	R  int    `json:"r"` // delcol: 1 if a time range is given
	S  j.N64  `json:"s"`
	E  j.N64  `json:"e"`
}

type Entry struct {
	K    j.B   `json:"k"`
	Muts []Mut `json:"muts"`
}

// RmwRule: k in append|incr|none; amt is the increment as 8 bytes big-endian two's complement.
type RmwRule struct {
	K   string `json:"k"`
	F   j.B    `json:"f"`
	Q   j.B    `json:"q"`
	V   j.B    `json:"v"`
	Amt j.B    `json:"amt"`
}

// Re is a regex syntax tree (spec/common/Regex.tla).
type Re struct {
	K   string `json:"k"`
	B   int    `json:"b"`
	Set []int  `json:"set"`
	Neg bool   `json:"neg"`
	Xs  []Re   `json:"xs"`
	X   *Re    `json:"x"`
	// Raw is used by k="bad": the (uncompilable) pattern text to send.
	Raw string `json:"-"`
}

// Filter is a row filter tree (spec/bigtable/BtFilter.tla).
type Filter struct {
	K  string   `json:"k"`
	B  bool     `json:"b"`
	Re *Re      `json:"re"`
	F  j.B      `json:"f"`
	Sk string   `json:"sk"`
	S  j.B      `json:"s"`
	Ek string   `json:"ek"`
	E  j.B      `json:"e"`
	T0 j.N64    `json:"t0"`
	T1 j.N64    `json:"t1"`
	N  int      `json:"n"`
	L  j.B      `json:"l"`
	Fs []Filter `json:"fs"`
	P  *Filter  `json:"p"`
	Tb *Filter  `json:"tb"`
	Fb *Filter  `json:"fb"`
	Pn int      `json:"pn"` // sample probability in percent (harness-side only)
}

type Range struct {
	Sk string `json:"sk"`
	S  j.B    `json:"s"`
	Ek string `json:"ek"`
	E  j.B    `json:"e"`
}

type RowSet struct {
	Keys   []j.B   `json:"keys"`
	Ranges []Range `json:"ranges"`
}

type FamOrder struct {
	K  j.B   `json:"k"`
	Fo []j.B `json:"fo"`
}

// Chunk is the raw shape of one ReadRows cell chunk (for the chunk-stream well-formedness check).
type Chunk struct {
	HasKey  bool  `json:"hk"`
	K       j.B   `json:"k"`
	HasFam  bool  `json:"hf"`
	F       j.B   `json:"f"`
	HasQual bool  `json:"hq"`
	Q       j.B   `json:"q"`
	Ts      j.N64 `json:"ts"`
	V       j.B   `json:"v"`
	Commit  bool  `json:"commit"`
	Reset   bool  `json:"reset"`
	Msg     int   `json:"msg"` // index of the response message that carried it
}

type Samp struct {
	K   j.B `json:"k"`
	Off int `json:"off"`
}

type Resp struct {
	Code       int      `json:"code"`
	Msg        string   `json:"msg"`
	Panic      bool     `json:"panic"`
	Fams       []FamDef `json:"fams"`
	Names      []j.B    `json:"names"`
	Entries    []int    `json:"entries"`
	Matched    bool     `json:"matched"`
	TokFor     j.B      `json:"tokFor"`     // GenerateToken: the table name this token string has been issued for (first sighting wins)
	Consistent bool     `json:"consistent"` // CheckConsistency
	Row        []Col    `json:"row"`
	Rows       []Row    `json:"rows"`
	Chunks     []Chunk  `json:"chunks"`
	Samp       []Samp   `json:"samp"`
	NMsgs      int      `json:"nmsgs"`
}

type ObsTable struct {
	T      j.B      `json:"t"`
	Parent j.B      `json:"parent"`
	Fams   []FamDef `json:"fams"`
	Rows   []Row    `json:"rows"`
	Samp   []Samp   `json:"samp"`
}

type Obs struct {
	Tables []ObsTable `json:"tables"`
	Err    string     `json:"-"`
	// Same: this read-back is byte-for-byte identical to the previous one of the same trace (written as {"same":true}).
	// The key samples (random) are carried separately in that case.
	Same  bool      `json:"-"`
	Samps []ObsSamp `json:"-"`
	// Skip: no read-back was taken after this request (it ran concurrently with others; the state is checked at the
	// next event that has one)
	Skip bool `json:"-"`
}

type ObsSamp struct {
	T    j.B    `json:"t"`
	Samp []Samp `json:"samp"`
}

func (o Obs) MarshalJSON() ([]byte, error) {
	if o.Skip {
		return []byte(`{"skip":true}`), nil
	}
	if o.Same {
		return json.Marshal(map[string]interface{}{"same": true, "samps": o.Samps})
	}
	type alias Obs
	return json.Marshal(alias(o))
}

// Op is one request (and, once executed, its reply and the read-back of the whole state).
type Op struct {
	Ev  string `json:"ev"`
	Tr  int    `json:"tr"`
	I   int    `json:"i"`
	T   j.B    `json:"t"`
	Now j.N64  `json:"now"`

	Parent    j.B        `json:"parent"`
	Fams      []FamDef   `json:"fams"`
	Mods      []Mod      `json:"mods"`
	All       bool       `json:"all"`
	HasPrefix bool       `json:"hasPrefix"`
	Prefix    j.B        `json:"prefix"`
	K         j.B        `json:"k"`
	Muts      []Mut      `json:"muts"`
	Entries   []Entry    `json:"entries"`
	HasPred   bool       `json:"hasPred"`
	Pred      *Filter    `json:"pred"`
	Tm        []Mut      `json:"tm"`
	Fm        []Mut      `json:"fm"`
	FamOrder  []j.B      `json:"famOrder"`
	Rules     []RmwRule  `json:"rules"`
	Rs        RowSet     `json:"rs"`
	Limit     int        `json:"limit"`
	HasFilter bool       `json:"hasFilter"`
	Filter    *Filter    `json:"filter"`
	FamOrders []FamOrder `json:"famOrders"`
	Idle      bool       `json:"idle"`
	TokFor    j.B        `json:"tokFor"`  // CheckConsistency: present the token last issued for this table name ...
	Genuine   bool       `json:"genuine"` // ... or (false) a string the service never issued

	// Crash events (C08)
	HasInflight bool   `json:"hasInflight"`
	Inflight    *Op    `json:"inflight"`
	Started     bool   `json:"started"`
	Point       string `json:"point"` // where the process was killed: "boundary", "clean" or <hook point>#<n>
	WantChunks  bool   `json:"-"`

	Resp *Resp `json:"resp,omitempty"`
	Obs  *Obs  `json:"obs,omitempty"`
}

// which fields each record kind carries in the trace (the TLA+ side touches only these)
var opFields = map[string][]string{
	"Reset":            {},
	"CreateTable":      {"t", "parent", "fams"},
	"GetTable":         {"t"},
	"ListTables":       {"parent"},
	"DeleteTable":      {"t"},
	"GenerateToken":    {"t"},
	"CheckConsistency": {"t", "tokFor", "genuine"},
	"ModifyFamilies":   {"t", "mods"},
	"DropRowRange":     {"t", "all", "hasPrefix", "prefix"},
	"MutateRow":        {"t", "k", "muts", "now"},
	"MutateRows":       {"t", "entries", "now"},
	"CheckAndMutate":   {"t", "k", "hasPred", "pred", "tm", "fm", "famOrder", "now"},
	"ReadModifyWrite":  {"t", "k", "rules", "now"},
	"ReadRows":         {"t", "rs", "limit", "hasFilter", "filter", "famOrders"},
	"SampleRowKeys":    {"t"},
	"GcPass":           {"t", "now"},
	"GcAuto":           {"t", "now", "idle"},
	"Crash":            {"hasInflight", "inflight", "started", "point"},
}

var mutFields = map[string][]string{
	"set": {"f", "q", "ts", "v"}, "delcol": {"f", "q", "r", "s", "e"}, "delfam": {"f"}, "delrow": {}, "none": {},
}

var ruleFields = map[string][]string{
	"none": {}, "maxver": {"n"}, "maxage": {"us"}, "union": {"rules"}, "inter": {"rules"},
}

var rmwFields = map[string][]string{"append": {"f", "q", "v"}, "incr": {"f", "q", "amt"}, "none": {"f", "q"}}

var reFields = map[string][]string{
	"lit": {"b"}, "any": {}, "dot": {}, "class": {"set", "neg"}, "cat": {"xs"}, "alt": {"xs"},
	"star": {"x"}, "plus": {"x"}, "opt": {"x"}, "bad": {},
}

var filterFields = map[string][]string{
	"pass": {"b"}, "block": {"b"}, "keyre": {"re"}, "famre": {"re"}, "qualre": {"re"}, "valre": {"re"},
	"colrange": {"f", "sk", "s", "ek", "e"}, "valrange": {"sk", "s", "ek", "e"}, "tsrange": {"t0", "t1"},
	"rowlimit": {"n"}, "rowoffset": {"n"}, "collimit": {"n"}, "strip": {}, "label": {"l"},
	"chain": {"fs"}, "inter": {"fs"}, "cond": {"p", "tb", "fb"}, "sample": {"pn"}, "badsample": {"pn"}, "nil": {},
}

func prune(full interface{}, kindKey string, table map[string][]string, always ...string) ([]byte, error) {
	b, err := json.Marshal(full)
	if err != nil {
		return nil, err
	}
	var m map[string]json.RawMessage
	if err := json.Unmarshal(b, &m); err != nil {
		return nil, err
	}
	var kind string
	_ = json.Unmarshal(m[kindKey], &kind)
	keep, ok := table[kind]
	if !ok {
		return b, nil
	}
	out := map[string]json.RawMessage{kindKey: m[kindKey]}
	for _, k := range keep {
		if v, ok := m[k]; ok {
			out[k] = v
		}
	}
	for _, k := range always {
		if v, ok := m[k]; ok {
			out[k] = v
		}
	}
	return json.Marshal(out)
}

type opAlias Op
type mutAlias Mut
type ruleAlias Rule
type rmwAlias RmwRule
type reAlias Re
type filterAlias Filter

func (o Op) MarshalJSON() ([]byte, error) {
	return prune(opAlias(o), "ev", opFields, "tr", "i", "resp", "obs")
}
func (m Mut) MarshalJSON() ([]byte, error)     { return prune(mutAlias(m), "m", mutFields) }
func (r Rule) MarshalJSON() ([]byte, error)    { return prune(ruleAlias(r), "t", ruleFields) }
func (r RmwRule) MarshalJSON() ([]byte, error) { return prune(rmwAlias(r), "k", rmwFields) }
func (r Re) MarshalJSON() ([]byte, error)      { return prune(reAlias(r), "k", reFields) }
func (f Filter) MarshalJSON() ([]byte, error) {
	ff := filterAlias(f)
	if ff.K == "cond" {
		if ff.Tb == nil {
			ff.Tb = &Filter{K: "nil"}
		}
		if ff.Fb == nil {
			ff.Fb = &Filter{K: "nil"}
		}
	}
	return prune(ff, "k", filterFields)
}

// NilToAbsent undoes the "nil" branch placeholders after decoding a filter from JSON.
func (f *Filter) Normalize() {
	if f == nil {
		return
	}
	if f.Tb != nil && f.Tb.K == "nil" {
		f.Tb = nil
	}
	if f.Fb != nil && f.Fb.K == "nil" {
		f.Fb = nil
	}
	f.P.Normalize()
	f.Tb.Normalize()
	f.Fb.Normalize()
	for i := range f.Fs {
		f.Fs[i].Normalize()
	}
}
