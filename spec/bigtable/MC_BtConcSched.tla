---- MODULE MC_BtConcSched ----
EXTENDS MC_BtConc
VARIABLE sched
svars == <<vars, sched>>
SInit == Init /\ sched = <<>>
SNext == \E p \in Procs : Step(p) /\ sched' = Append(sched, p)
SSpec == SInit /\ [][SNext]_svars
\* print complete behaviours of the RELAXED model in which a property fails (adversarial schedules) and, sampled, the others
Bad == ~(NoLostIncrement /\ OneWinner /\ NoTornRead /\ AckedWritesSurvive /\ NoResurrection)
PrintSched == AllDone => PrintT(<<"SCHED", ToJson([mix |-> KindName, bad |-> Bad, steps |-> sched])>>)
====
