SPECIFICATION Spec
INVARIANT InvCanonical
POSTCONDITION Consumed
CHECK_DEADLOCK FALSE
