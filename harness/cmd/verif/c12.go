package main

func init() {
	checks["C12"] = checkC12
	checks["C14"] = checkC14
}

// C12 Bigtable: CheckAndMutateRow applies exactly the branch its predicate selects.
func checkC12(c *Ctx) {
	c.rule = "cases = request histories containing CheckAndMutateRow requests (each preceded by a ReadRows of the same row through the same filter): TLC-enumerated transitions of MC_BtCam with BFS history, and seeded random programs with predicate trees to depth 2; executed on the real emulator on every engine; predicate_matched, status and full read-back validated step by step by TLC against BtData.CheckAndMutate; distinct = distinct history text; non-trivial = at least one request after table creation"
	c.runBtFamily(btFamily{
		Label: "C12", Module: "MC_BtCam",
		Quick:      map[string]string{"MaxCells": "3", "MaxCam": "1"},
		Thorough:   map[string]string{"MaxCells": "3", "MaxCam": "2"},
		DumpThor:   map[string]string{"MaxCells": "3", "MaxCam": "1"},
		SampleQ:    "15", SampleT: "2", MaxReplayQ: 1500,
		Invariants: []string{"InvCanonical"}, Properties: []string{"FailedIsNoop", "BranchLaw", "NoPredLaw"},
		Gen: genCamProgram, NRandQ: 150, NRandT: 3000,
	})
}

// C14 Bigtable: table, family and row-range admin changes exactly what it names.
func checkC14(c *Ctx) {
	c.rule = "cases = request histories of admin requests (create/get/list/delete table, modify families, drop row range) interleaved with writes over several tables and parents: TLC-enumerated transitions of MC_BtAdmin with BFS history, and seeded random programs; executed on the real emulator on every engine; replies and the full read-back of every table under every parent validated step by step by TLC against BtData; distinct = distinct history text; non-trivial = at least two requests"
	c.runBtFamily(btFamily{
		Label: "C14", Module: "MC_BtAdmin",
		Quick:      map[string]string{"MaxCells": "2", "MaxDepth": "4", "MaxMods": "1"},
		Thorough:   map[string]string{"MaxCells": "2", "MaxDepth": "5", "MaxMods": "3"},
		DumpQuick:  map[string]string{"MaxCells": "2", "MaxDepth": "4", "MaxMods": "2"},
		DumpThor:   map[string]string{"MaxCells": "2", "MaxDepth": "4", "MaxMods": "3"},
		SampleQ:    "600", SampleT: "60", MaxReplayQ: 1500,
		Invariants: []string{"InvCanonical"}, Properties: []string{"FailedIsNoop", "Frame", "DropLaw"},
		Gen: genAdminProgram, NRandQ: 150, NRandT: 3000,
	})
}

func init() { checks["C16"] = checkC16 }

// C16 Bigtable: garbage collection removes exactly what the GC rules condemn.
func checkC16(c *Ctx) {
	c.rule = "cases = request histories with GC passes (forced passes with a scripted clock, and the collector's own quiescence decision on busy / idle tables): TLC-enumerated transitions of MC_BtGc (all rule trees of depth <= 2, cells at the cut-off +-1 ms) with BFS history, and seeded random programs with rule trees to depth 2; executed on the real emulator on every engine; full read-back validated step by step by TLC against BtData.GcPass/GcAuto; distinct = distinct history text; non-trivial = at least two requests"
	c.runBtFamily(btFamily{
		Label: "C16", Module: "MC_BtGc",
		Quick:      map[string]string{"MaxCells": "3", "MaxPasses": "1"},
		Thorough:   map[string]string{"MaxCells": "4", "MaxPasses": "1"},
		DumpQuick:  map[string]string{"MaxCells": "3", "MaxPasses": "1"},
		DumpThor:   map[string]string{"MaxCells": "3", "MaxPasses": "1"},
		SampleQ:    "1000", SampleT: "60", MaxReplayQ: 1200,
		Invariants: []string{"InvCanonical", "InvSeqForm"}, Properties: []string{"PassLaw"},
		Gen: genGcProgram, NRandQ: 150, NRandT: 3000,
	})
}
