#!/bin/bash
# usage: scripts/run-mutant.sh <seeded-dir> <tier> <property> [<property> ...]
# Applies the seeded change to /repo, runs the named checks against it and undoes the change straight afterwards.
# Prints one line per check: "<mutant> <property> <tier> exit=<code> <first VIOLATION line / last line>".
# Nothing is ever committed to /repo; evidence files written meanwhile are restored from git.
d="$1"; tier="$2"; shift 2
[ -f "$d/patch.diff" ] || { echo "no patch in $d"; exit 2; }
if ! git -C /repo diff --quiet; then echo "/repo working tree is not clean"; exit 2; fi
git -C /repo apply "$d/patch.diff" || { echo "patch does not apply"; exit 2; }
trap 'git -C /repo checkout -- . ; git -C /verif checkout -- evidence 2>/dev/null' EXIT
for p in "$@"; do
  out=$(/verif/scripts/run-check.sh "$p" "$tier" 2>&1); code=$?
  line=$(echo "$out" | grep -m1 "^VIOLATION" ); what=$(echo "$out" | grep -m1 -A1 "^VIOLATION" | tail -1 | cut -c1-300)
  [ -z "$line" ] && what=$(echo "$out" | tail -1 | cut -c1-300)
  echo "$(basename $d) $p $tier exit=$code $line $what"
done
