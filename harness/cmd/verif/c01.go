package main

import (
	"encoding/json"
	"fmt"
	"math/rand"
	"time"

	"verif/harness/internal/bt"
)

type btOp = bt.Op

var allEngines = []string{"btree", "mem", "disk"}

func init() { checks["C01"] = checkC01 }

func describe(prog []bt.Op) string {
	b, _ := json.Marshal(stripProg(prog))
	return string(b)
}

// C01 Bigtable: reads reflect exactly the mutations applied.
func checkC01(c *Ctx) {
	c.rule = "cases = request histories (TLC-enumerated transitions of MC_BtMut with their BFS history, and seeded random mutation programs), each executed on the real emulator on every engine with a full read-back after every request and validated step by step by TLC against BtData; distinct = distinct history text; non-trivial = history with at least one mutation request after the table creation"
	r := rand.New(rand.NewSource(c.Seed))
	// M: exhaustive model check of the bounded mutation model
	mcConst := map[string]string{"MaxCells": "2", "Pairs": "FALSE", "TwoKeys": "FALSE", "DumpEdges": "FALSE", "SampleK": "1"}
	if !c.Quick() {
		mcConst = map[string]string{"MaxCells": "2", "Pairs": "TRUE", "TwoKeys": "TRUE", "DumpEdges": "FALSE", "SampleK": "1"}
	}
	mc := cfg{Spec: "Spec", Constants: mcConst, Constraint: "Constr", View: "View", Invariants: []string{"InvCanonical"}, Properties: []string{"FailedIsNoop"}}
	c.runModel("MC_BtMut", mc, 12, 25*time.Minute, c.Quick())

	// R: transitions enumerated by TLC, replayed on the real emulator
	dump := cfg{Spec: "Spec", Constants: map[string]string{"MaxCells": "2", "Pairs": "TRUE", "TwoKeys": "FALSE", "DumpEdges": "TRUE", "SampleK": "300"}, Constraint: "Constr", View: "View"}
	nR := 1500
	if !c.Quick() {
		dump.Constants["SampleK"] = "3000"
		dump.Constants["TwoKeys"] = "TRUE"
		nR = 0
	}
	paths := c.dumpPaths("MC_BtMut", dump, 25*time.Minute, 8)
	concretise(paths)
	paths = samplePrograms(r, paths, nR)
	c.Extra("tlc_transitions_replayed", len(paths))

	// T: random programs over the wide universe
	nT := 150
	if !c.Quick() {
		nT = 3000
	}
	var progs [][]bt.Op
	for i := 0; i < nT; i++ {
		progs = append(progs, genMutationProgram(r, 20+r.Intn(40)))
	}
	all := append(append([][]bt.Op{}, paths...), progs...)
	for _, p := range all {
		c.AddEval(1)
		if len(p) > 1 {
			c.Nontrivial(describe(p))
		}
	}
	if len(paths) > 0 {
		c.Sample(map[string]interface{}{"source": "TLC transition with BFS history (MC_BtMut)", "program": stripProg(paths[0])})
	}
	if len(progs) > 0 {
		c.Sample(map[string]interface{}{"source": "random program", "program": stripProg(progs[0][:6])})
	}
	c.exhaustive = false
	c.btValidate("C01", allEngines, all, nil)
	c.Assume("TLC, the Json community module and the harness's request encoder / chunk decoder are trusted")
	c.Assume(fmt.Sprintf("programs run over real gRPC on loopback with an injected clock; %d engines", len(allEngines)))
}
