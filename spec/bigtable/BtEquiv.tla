------------------------------- MODULE BtEquiv ------------------------------
(***************************************************************************)
(* C17: the storage engine is unobservable.  The same sequential programs  *)
(* are run on the btree, in-memory leveldb and on-disk leveldb engines;    *)
(* the three recorded traces (a.ndjson, b.ndjson, c.ndjson) must agree     *)
(* event by event on every reply (status code and payload, including all   *)
(* orderings) and on every read-back.  Only the random key sample of       *)
(* SampleRowKeys is exempt (which rows are sampled is unspecified).        *)
(* Each trace is separately validated against BtData by BtTrace.           *)
(***************************************************************************)
EXTENDS Naturals, Sequences, Json, TLC

A == ndJsonDeserialize("a.ndjson")
B == ndJsonDeserialize("b.ndjson")
C == ndJsonDeserialize("c.ndjson")

VARIABLE l

NoSamp(obs) == IF "same" \in DOMAIN obs THEN [same |-> TRUE]
               ELSE [tables |-> [i \in 1..Len(obs.tables) |->
                       [t |-> obs.tables[i].t, parent |-> obs.tables[i].parent, fams |-> obs.tables[i].fams, rows |-> obs.tables[i].rows]]]
Payload(r) == [code |-> r.code, panic |-> r.panic, fams |-> r.fams, names |-> r.names, entries |-> r.entries,
               matched |-> r.matched, row |-> r.row, rows |-> r.rows, nmsgs |-> r.nmsgs]

Agree(x, y) == IF x.ev = "Reset" THEN y.ev = "Reset"
               ELSE x.ev = y.ev /\ Payload(x.resp) = Payload(y.resp) /\ NoSamp(x.obs) = NoSamp(y.obs)

Init == l = 1
Next == /\ l <= Len(A)
        /\ l' = l + 1
        /\ (Agree(A[l], B[l]) /\ Agree(A[l], C[l])) \/
           PrintT(<<"DIFFER", ToJson([tr |-> A[l].tr, i |-> A[l].i, ev |-> A[l].ev,
                                      ab |-> Agree(A[l], B[l]), ac |-> Agree(A[l], C[l])])>>)
Spec == Init /\ [][Next]_l
SameLength == Len(A) = Len(B) /\ Len(A) = Len(C)
Consumed == TLCGet("stats").diameter = Len(A) + 1
=============================================================================
