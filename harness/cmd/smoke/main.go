package main

import (
	"bytes"
	"fmt"
	"os"
	"time"

	"verif/harness/internal/bt"
	"verif/harness/internal/j"
	"verif/harness/internal/tlc"
)

func main() {
	eng := "mem"
	if len(os.Args) > 1 {
		eng = os.Args[1]
	}
	dir, _ := os.MkdirTemp("", "bt-")
	defer os.RemoveAll(dir)
	s, err := bt.Start(eng, dir)
	if err != nil {
		panic(err)
	}
	defer s.Close()
	T := j.S("projects/p/instances/i/tables/t1")
	P := j.S("projects/p/instances/i")
	prog := []bt.Op{
		{Ev: "CreateTable", T: T, Parent: P, Fams: []bt.FamDef{{F: j.S("f"), Rule: bt.Rule{T: "none"}}, {F: j.S("g"), Rule: bt.Rule{T: "maxver", N: 1}}}},
		{Ev: "MutateRow", T: T, K: j.S("a"), Now: 5000, Muts: []bt.Mut{{M: "set", F: j.S("f"), Q: j.S("q"), Ts: 1000, V: j.S("x")}, {M: "set", F: j.S("g"), Q: j.S(""), Ts: -1, V: j.S("y")}}},
		{Ev: "MutateRow", T: T, K: j.S("a\x00"), Now: 5000, Muts: []bt.Mut{{M: "set", F: j.S("f"), Q: j.S("q"), Ts: 1500, V: j.S("x")}}},
		{Ev: "MutateRow", T: T, K: j.S("a"), Now: 5000, Muts: []bt.Mut{{M: "set", F: j.S("f"), Q: j.S("q"), Ts: 2000, V: j.S("z")}, {M: "delcol", F: j.S("f"), Q: j.S("q"), R: 1, S: 1000, E: 2000}}},
		{Ev: "ReadRows", T: T},
		{Ev: "GetTable", T: T},
		{Ev: "ListTables", Parent: P},
		{Ev: "ReadModifyWrite", T: T, K: j.S("a"), Now: 7000, Rules: []bt.RmwRule{{K: "append", F: j.S("f"), Q: j.S("q"), V: j.S("!")}, {K: "incr", F: j.S("g"), Q: j.S("n"), Amt: j.B{0, 0, 0, 0, 0, 0, 0, 5}}}},
		{Ev: "CheckAndMutate", T: T, K: j.S("a"), Now: 7000, HasPred: true, Pred: &bt.Filter{K: "qualre", Re: &bt.Re{K: "lit", B: 'q'}}, Tm: []bt.Mut{{M: "delfam", F: j.S("g")}}},
		{Ev: "GcPass", T: T, Now: 9000},
		{Ev: "DropRowRange", T: T, HasPrefix: true, Prefix: j.S("a\x00")},
		{Ev: "DeleteTable", T: T},
	}
	t0 := time.Now()
	evs := s.Run(1, prog)
	var buf bytes.Buffer
	for _, e := range evs {
		buf.Write(j.Line(e))
	}
	fmt.Println("exec", time.Since(t0))
	os.WriteFile("/tmp/smoke.ndjson", buf.Bytes(), 0644)
	res, err := tlc.Run(tlc.Options{Module: "BtTrace", Cfg: "BtTrace.cfg", Files: map[string][]byte{"trace.ndjson": buf.Bytes()}})
	fmt.Println(err, res.ExitCode, res.Generated, res.Distinct, res.WallS)
	fmt.Println(res.Tail(25))
	for _, p := range res.Printed {
		fmt.Println("PRINTED", p)
	}
}
