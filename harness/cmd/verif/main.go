package main

import (
	"fmt"

	"github.com/fullstorydev/emulators/bigtable/bttest"
	"github.com/fullstorydev/emulators/storage/gcsemu"
)

func main() {
	fmt.Println(bttest.BtreeStorage{}, gcsemu.NewMemStore() != nil)
}
