#!/usr/bin/env python3
import json,sys
d=json.load(open(sys.argv[1]))
c=d['case']; print(d['what'][:200]); print(c.get('rejected_event'))
def b(x): return bytes(x).decode('latin1') if isinstance(x,list) else x
L=(c.get('rejected_event') or {}).get('l',10**9)
for i,e in enumerate(c.get('recorded_events',[])[:L+3]):
    op=e.get('op') or {}; r=e.get('resp') or {}
    extra=''
    if op: extra=op.get('ev','')+' conds='+json.dumps({k:v.get('v') for k,v in (op.get('conds') or {}).items() if v.get('k')!='unset'})
    if r: extra='code=%s hgen=%s hmeta=%s body=%r view=%s raw=%s'%(r.get('code'),r.get('hgen'),r.get('hmetagen'),b(r.get('body') or []),json.dumps({k:(b(v) if k!='attrs' else b(v.get('ct'))) for k,v in (r.get('view') or {}).items() if k in('gen','metagen','attrs')}),(r.get('raw') or '')[:60].replace('\n',' '))
    print(i+1,e['p'],e['pt'],b(e.get('n') or []),e.get('gen') or '',e.get('metagen') or '',extra)
