#!/bin/bash
# Offline build of the framework + parse of every TLA+ module.
cd /verif || exit 1
export GOFLAGS=-mod=mod GOPROXY=off GOTOOLCHAIN=local
mkdir -p bin evidence
(cd harness && go build -tags verif -o /verif/bin/verif ./cmd/verif) || exit 1
scripts/sany-all.sh || exit 1
echo setup-ok
