SPECIFICATION Spec
CONSTRAINT Mark
POSTCONDITION Report
CHECK_DEADLOCK FALSE
