------------------------------ MODULE MC_BtRmw ------------------------------
(***************************************************************************)
(* Bounded model for ReadModifyWriteRow (C13): rule lists over two columns *)
(* (plus an unknown family), prior cells in the past / at / after the      *)
(* clock, 8-byte, short and empty values, extreme increments.              *)
(***************************************************************************)
EXTENDS MCBase

CONSTANTS MaxRules, MaxCells, MaxRmw    \* MaxRmw: read-modify-write requests per history

TName == <<116, 49>>   Parent == <<112>>
FamF == <<102>>  FamU == <<117>>
Key == <<97>>
QQ == <<113>>  QR == <<114>>
TPast == <<0, 0, 0, 1000>>  TNow == <<0, 0, 0, 3000>>  TFut == <<0, 0, 0, 9000>>
Clock == <<0, 0, 0, 3000>>  ClockSub == <<0, 0, 0, 3999>>
V0 == <<0, 0, 0, 0, 0, 0, 0, 0>>  VMax == <<255, 255, 255, 255, 255, 255, 255, 255>>
V7F == <<127, 255, 255, 255, 255, 255, 255, 255>>
VShort == <<97, 98, 99>>  VEmpty == <<>>
Amounts == {<<0, 0, 0, 0, 0, 0, 0, 1>>, VMax (* -1 *), <<128, 0, 0, 0, 0, 0, 0, 0>> (* min *), V7F (* max *)}

CreateOp == [ev |-> "CreateTable", t |-> TName, parent |-> Parent, fams |-> <<[f |-> FamF, rule |-> [t |-> "none"]]>>]

Rules == {[k |-> "incr", f |-> f, q |-> q, amt |-> a] : f \in {FamF, FamU}, q \in {QQ, QR}, a \in Amounts}
    \cup {[k |-> "append", f |-> f, q |-> q, v |-> v] : f \in {FamF, FamU}, q \in {QQ, QR}, v \in {VEmpty, <<122>>}}
    \cup {[k |-> "none", f |-> FamF, q |-> QQ]}
\* lists: every single rule; longer lists start with a rule on f:q
Rules1 == {r \in Rules : r.f = FamF /\ r.q = QQ /\ r.k # "none" /\ (r.k = "incr" => r.amt \in {<<0, 0, 0, 0, 0, 0, 0, 1>>, V7F})}
RuleLists == {<<r>> : r \in Rules}
        \cup (IF MaxRules >= 2 THEN {<<r1, r2>> : r1 \in Rules1, r2 \in Rules} ELSE {})
        \cup (IF MaxRules >= 3 THEN {<<r1, r2, r3>> : r1 \in Rules1, r2 \in Rules1, r3 \in Rules1} ELSE {})

NRmw == Cardinality({i \in 1..Len(path) : path[i].ev = "ReadModifyWrite"})
Init == InitWith(<<CreateOp>>)

Seed == /\ NRmw = 0
        /\ \E q \in {QQ, QR}, t \in {TPast, TNow, TFut}, v \in {V0, VMax, V7F, VShort, VEmpty} :
           Do([ev |-> "MutateRow", t |-> TName, k |-> Key, now |-> Clock,
               muts |-> <<[m |-> "set", f |-> FamF, q |-> q, ts |-> t, v |-> v]>>])
DoRmw == \E rs \in RuleLists, now \in {Clock, ClockSub} :
          Do([ev |-> "ReadModifyWrite", t |-> TName, k |-> Key, now |-> now, rules |-> rs])

Next == Seed \/ DoRmw
Spec == Init /\ [][Next]_vars
Constr == TotalCells(st) <= MaxCells /\ NRmw <= MaxRmw /\ Dump

(* design properties of a successful read-modify-write, checked on every transition *)
OldRow == IF Key \in DOMAIN st.tables[TName].rows THEN st.tables[TName].rows[Key] ELSE NoRow
NewRow == IF Key \in DOMAIN st'.tables[TName].rows THEN st'.tables[TName].rows[Key] ELSE NoRow
RmwLaws == [][(last'.op.ev = "ReadModifyWrite" /\ last'.resp.ok /\ last'.op.rules # <<>>) =>
     LET resp == last'.resp.row IN
     /\ resp # NoRow
     \* exactly the touched columns, one new cell each, which is the newest cell of the column afterwards
     /\ DOMAIN resp = {<<last'.op.rules[i].f, last'.op.rules[i].q>> : i \in 1..Len(last'.op.rules)}
     /\ \A c \in DOMAIN resp : Cardinality(DOMAIN resp[c]) = 1 /\
            LET t == Newest(resp[c]) IN t = Newest(NewRow[c]) /\ resp[c][t] = NewRow[c][t]
                 /\ GE64(t, TruncMilli(last'.op.now)) /\ IsMilli(t)
                 /\ (c \in DOMAIN OldRow => GE64(t, Newest(OldRow[c])))
     \* older versions are kept, untouched columns unchanged
     /\ \A c \in DOMAIN OldRow : c \in DOMAIN NewRow /\
            \A t \in DOMAIN OldRow[c] : t \in DOMAIN NewRow[c] /\
                 (NewRow[c][t] # OldRow[c][t] => (c \in DOMAIN resp /\ t = Newest(resp[c])))
     /\ \A c \in DOMAIN NewRow : c \notin DOMAIN resp => (c \in DOMAIN OldRow /\ NewRow[c] = OldRow[c])
   ]_vars
=============================================================================
