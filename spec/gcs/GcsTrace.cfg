SPECIFICATION Spec
POSTCONDITION Consumed
CHECK_DEADLOCK FALSE
