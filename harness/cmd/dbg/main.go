package main

import (
	"encoding/json"
	"fmt"
	"os"

	"verif/harness/internal/gcs"
	"verif/harness/internal/j"
)

// dbg <replay.json> <out.ndjson>: re-run a gcs-seq replay and write its trace
func main() {
	b, _ := os.ReadFile(os.Args[1])
	var f struct {
		Case struct {
			Store   string   `json:"store"`
			Program []gcs.Op `json:"program"`
		} `json:"case"`
	}
	if err := json.Unmarshal(b, &f); err != nil {
		panic(err)
	}
	dir, _ := os.MkdirTemp("", "d")
	defer os.RemoveAll(dir)
	s, _ := gcs.Start(f.Case.Store, dir)
	evs := s.Run(1, f.Case.Program)
	s.Close()
	gcs.RankGens(evs)
	var out []byte
	for _, e := range evs {
		out = append(out, j.Line(e)...)
	}
	os.WriteFile(os.Args[2], out, 0644)
	fmt.Println(len(evs), "events")
}
