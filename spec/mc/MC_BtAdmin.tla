----------------------------- MODULE MC_BtAdmin -----------------------------
(***************************************************************************)
(* Bounded model for table, family and row-range administration (C14):     *)
(* two parents x two table ids, families f g h, keys p, p\xff, p\xff\x00,  *)
(* q, modification lists (including ones whose later element fails),       *)
(* prefix drops, interleaved with writes.                                  *)
(***************************************************************************)
EXTENDS MCBase

CONSTANTS MaxCells, MaxDepth, MaxMods

\* table names are written parent@id; the harness expands them to projects/p/instances/<parent>/tables/<id>
P1 == <<112>>   P2 == <<112, 50>>
Names == { <<P1, <<112, 64, 116, 49>>>>, <<P1, <<112, 64, 116, 50>>>>, <<P2, <<112, 50, 64, 116, 49>>>> }
FamF == <<102>>  FamG == <<103>>  FamH == <<104>>
Keys == {<<112>>, <<112, 255>>, <<112, 255, 0>>, <<113>>}
Prefixes == {<<112>>, <<112, 255>>, <<113>>, <<112, 113>>, <<112, 255, 0>>}
T1 == <<0, 0, 0, 1000>>
VX == <<120>>
RNone == [t |-> "none"]  RV1 == [t |-> "maxver", n |-> 1]  RAge == [t |-> "maxage", us |-> <<0, 0, 1, 0>>]

FamLists == { <<>>, <<[f |-> FamF, rule |-> RNone]>>, <<[f |-> FamF, rule |-> RV1], [f |-> FamG, rule |-> RNone]>> }
Mods == { [k |-> "create", f |-> FamH, rule |-> RAge], [k |-> "create", f |-> FamF, rule |-> RNone],
          [k |-> "update", f |-> FamG, rule |-> RV1], [k |-> "update", f |-> FamH, rule |-> RNone],
          [k |-> "drop", f |-> FamF, rule |-> RNone], [k |-> "drop", f |-> FamH, rule |-> RNone],
          [k |-> "drop", f |-> FamG, rule |-> RNone] }
ModLists == {<<m>> : m \in Mods} \cup (IF MaxMods >= 2 THEN {<<a, b>> : a \in Mods, b \in Mods} ELSE {})
                                 \cup (IF MaxMods >= 3 THEN {<<[k |-> "drop", f |-> FamF, rule |-> RNone], [k |-> "create", f |-> FamF, rule |-> RV1], b>> : b \in Mods} ELSE {})

Init == InitWith(<<>>)

Create == \E n \in Names, fl \in FamLists : Do([ev |-> "CreateTable", t |-> n[2], parent |-> n[1], fams |-> fl])
Get    == \E n \in Names : Do([ev |-> "GetTable", t |-> n[2]])
List   == \E p \in {P1, P2, <<122>>} : Do([ev |-> "ListTables", parent |-> p])
Delete == \E n \in Names : Do([ev |-> "DeleteTable", t |-> n[2]])
Token  == \E n \in Names : Do([ev |-> "GenerateToken", t |-> n[2]])
Check  == \E n \in Names, m \in Names, g \in BOOLEAN : Do([ev |-> "CheckConsistency", t |-> n[2], tokFor |-> m[2], genuine |-> g])
Modify == \E n \in Names, ml \in ModLists : Do([ev |-> "ModifyFamilies", t |-> n[2], mods |-> ml])
Drop   == \E n \in Names :
            \/ \E pf \in Prefixes : Do([ev |-> "DropRowRange", t |-> n[2], all |-> FALSE, hasPrefix |-> TRUE, prefix |-> pf])
            \/ Do([ev |-> "DropRowRange", t |-> n[2], all |-> TRUE, hasPrefix |-> FALSE, prefix |-> <<>>])
            \/ Do([ev |-> "DropRowRange", t |-> n[2], all |-> FALSE, hasPrefix |-> FALSE, prefix |-> <<>>])
Write  == \E n \in Names, k \in Keys, f \in {FamF, FamG, FamH} :
            Do([ev |-> "MutateRow", t |-> n[2], k |-> k, now |-> T1,
                muts |-> <<[m |-> "set", f |-> f, q |-> <<>>, ts |-> T1, v |-> VX]>>])

Next == Create \/ Get \/ List \/ Delete \/ Token \/ Check \/ Modify \/ Drop \/ Write
Spec == Init /\ [][Next]_vars
Constr == TotalCells(st) <= MaxCells /\ Len(path) <= MaxDepth /\ Dump

(* design properties *)
\* every request changes at most the table it names
Frame == [][\A t \in DOMAIN st.tables : (("t" \in DOMAIN last'.op) /\ last'.op.t = t) \/
               (t \in DOMAIN st'.tables /\ st'.tables[t] = st.tables[t])]_vars
\* a prefix drop removes exactly the rows with that prefix and leaves the schema alone
DropLaw == [][(last'.op.ev = "DropRowRange" /\ last'.resp.ok /\ last'.op.hasPrefix) =>
     LET t == last'.op.t IN
     /\ st'.tables[t].fams = st.tables[t].fams
     /\ DOMAIN st'.tables[t].rows = {k \in DOMAIN st.tables[t].rows : ~IsPrefixB(last'.op.prefix, k)}
     /\ \A k \in DOMAIN st'.tables[t].rows : st'.tables[t].rows[k] = st.tables[t].rows[k]]_vars
\* consistency-token requests are reads; a token is accepted exactly for the table it was generated for
TokenLaw == [][last'.op.ev \in {"GenerateToken", "CheckConsistency"} =>
     /\ st' = st
     /\ last'.resp.ok => HasTbl(st, last'.op.t)
     /\ (last'.op.ev = "CheckConsistency" /\ last'.resp.ok) => (last'.op.genuine /\ last'.op.tokFor = last'.op.t /\ last'.resp.consistent)]_vars
\* rows never hold cells of a family that is not in the schema
InvSchema == InvCanonical
=============================================================================
