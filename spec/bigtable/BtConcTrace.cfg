SPECIFICATION Spec
CONSTRAINT Mark
INVARIANT InvCanonical
POSTCONDITION Report
CHECK_DEADLOCK FALSE
