#!/usr/bin/env python3
"""Regenerates /verif/MANIFEST.json from the table below (and validates it against the schema)."""
import json, subprocess, sys
props = [json.loads(l) for l in open('/verif/properties.jsonl')]
TRUST = "Trusted base: TLC 1.8 and the CommunityModules Json module; the Go harness's request encoder, chunk decoder and read-back (it contains no oracle logic: every accept/reject decision is TLC evaluating the TLA+ specification on the recorded execution); goleveldb/btree/grpc as used by the repository. Bounded: exhaustive only within the stated small universes; beyond them behaviours are sampled (seeded) and judged by the specification."
claimed = {
 "C01": dict(design="6/C01", technique="TLA+ spec BtData/BtRow checked by TLC (MC_BtMut); TLC-enumerated transitions replayed on the real emulator and recorded executions validated by TLC trace checking (BtTrace), all three engines",
   text="Bounded model checking of the mutation semantics (every single mutation and pair over a boundary universe, all reachable states with <=2 cells) plus conformance in both directions: every sampled/enumerated model transition is replayed through real gRPC on btree, leveldb-mem and leveldb-disk with a full read-back after each request, and random programs over adversarial keys/timestamps are trace-validated step by step. This is the right level because the property quantifies over all programs: the model covers the small universe exhaustively and the trace check evaluates the full state after every step of every execution."),
 "C12": dict(design="6/C12", technique="TLA+ spec BtData.CheckAndMutate + BtFilter checked by TLC (MC_BtCam: BranchLaw, NoPredLaw); TLC transitions replayed and recorded executions trace-validated by TLC, three engines",
   text="Bounded model checking of CheckAndMutateRow over a basis of 29 predicate filters (including value-stripping, zero-limit and invalid ones) x row states x pairs of mutation lists, with the design laws (exactly the selected branch is applied with MutateRow semantics; no predicate = row has a cell) as action properties; every enumerated transition and random programs with predicate trees to depth 2 are executed on the real emulator, each request preceded by a read through the same filter, and predicate_matched, status and the full read-back are validated by TLC."),
 "C13": dict(design="6/C13", technique="TLA+ spec BtRow.Rmw checked by TLC (MC_BtRmw: RmwLaws); TLC transitions replayed and recorded executions trace-validated by TLC, three engines",
   text="Bounded model checking of ReadModifyWriteRow (rule lists up to 3 over two columns and an unknown family, prior cells before/at/after the clock, 8-byte/short/empty values, extreme increments) with the timestamp-arbitration, wrap-around and response laws as action properties; every enumerated transition and random rule lists are executed on the real emulator with an injected clock and the response row and the full read-back are validated by TLC."),
 "C14": dict(design="6/C14", technique="TLA+ spec BtData admin actions checked by TLC (MC_BtAdmin: Frame, DropLaw, FailedIsNoop); TLC transitions replayed and recorded executions trace-validated by TLC, three engines",
   text="Bounded model checking of create/get/list/delete table, ModifyColumnFamilies lists (including ones whose later element fails) and DropRowRange over two parents, three tables, keys p, p\\xff, p\\xff\\x00, q with frame and drop laws as action properties; enumerated transitions and random admin/data programs are executed on the real emulator and every reply plus the read-back of every table under every parent is validated by TLC."),
 "C16": dict(design="6/C16", technique="TLA+ spec BtGC/BtData.GcPass checked by TLC (MC_BtGc: PassLaw, sequential-form refinement); TLC transitions replayed and recorded executions trace-validated by TLC, three engines",
   text="Bounded model checking of the GC policy over all rule trees of depth <= 2 and columns with cells at the cut-off +-1 ms (PassLaw: exactly the condemned cells go, family without rule untouched; the implementation's sequential application equals the set semantics); enumerated transitions and random programs with forced passes (scripted clock) and the collector's own busy/idle decision are executed on the real emulator and the read-back validated by TLC.",
   note=TRUST + " Clauses covered so far: policy (what a pass removes), emptied rows, quiescence decision. The clause about writes acknowledged while a pass is running (lock reversal windows) is not yet covered by this check."),
}
hook_commits = subprocess.run(['git','-C','/repo','log','--format=%H %s'],capture_output=True,text=True).stdout.splitlines()
hook_commits = [l.split()[0] for l in hook_commits if l.split(' ',1)[1].startswith('verif hooks')]
m = {"version": 1,
 "setup_cmd": "scripts/setup.sh",
 "hooks": {"guard": "verif", "enable": "go build -tags verif (files verif_on.go / verif_off.go per package; hook sites are one-line verifPoint(...) calls)",
   "baseline_off_cmd": "for m in bigtable storage; do (cd /repo/$m && go test -mod=mod -vet=off -count=1 -timeout 25m ./...) || exit 1; done",
   "source_commits": hook_commits, "add_only": True},
 "engines": [{"name": "tlc-trace", "path": "/verif/harness", "serves_properties": sorted(claimed), "kind_free_text": "Go driver of the real emulators + TLC (explicit TLA+ specifications in /verif/spec): bounded model checking, replay of TLC-generated behaviours, TLC trace validation of recorded executions"}],
 "checks": [], "notes": "See DESIGN.md. Known findings: known-findings.json. Exit 2 = inconclusive (never a violation).",
 "not_applicable": []}
for p in props:
    i = p["id"]
    if i in claimed:
        c = claimed[i]
        m["checks"].append({"property_id": i, "quick_cmd": f"scripts/run-check.sh {i} quick", "thorough_cmd": f"scripts/run-check.sh {i} thorough",
          "evidence_file": f"/verif/evidence/{i}.json", "replay_cmd_template": "bin/verif replay {path}", "engine": "tlc-trace",
          "level_claimed": {"category": "model_checking", "text": c["text"], "design_ref": c["design"]},
          "level_note": c.get("note", TRUST), "technique": c["technique"]})
    else:
        m["not_applicable"].append({"property_id": i, "reason": "check not built yet (work in progress; planned in DESIGN.md section 6)"})
json.dump(m, open('/verif/MANIFEST.json','w'), indent=1)
import jsonschema
jsonschema.validate(m, json.load(open('/root/.vp/MANIFEST.schema.json')))
print("MANIFEST ok:", len(m["checks"]), "checks,", len(m["not_applicable"]), "not applicable")
