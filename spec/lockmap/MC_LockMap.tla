---- MODULE MC_LockMap ----
EXTENDS LockMap
CONSTANTS p1, p2, p3, k1, k2
Sym == Permutations({p1, p2, p3})
====
