package main

import (
	"bytes"
	"encoding/json"
	"fmt"
	"math/rand"
	"os"
	"sync"
	"time"

	"verif/harness/internal/bt"
	"verif/harness/internal/btconc"
	"verif/harness/internal/j"
	"verif/harness/internal/tlc"
)

func init() { checks["C06"] = checkC06 }

type concSched struct {
	Mix   string `json:"mix"`
	Bad   bool   `json:"bad"`
	Steps []int  `json:"steps"`
}

var mixKinds = map[string][]string{
	"incr2": {"incr", "incr"}, "incr3": {"incr", "incr", "incr"}, "cas2": {"cas", "cas", "incr"}, "torn": {"mut2", "read", "mut2"},
	"mixed": {"incr", "mut2", "cas"}, "scan": {"scan", "mut2", "del"}, "scan2": {"scan", "incr", "mut2"},
	"gc": {"gc", "incr", "mut2"}, "gcdel": {"gc", "del", "incr"},
}
var mixRows = map[string][]int{
	"incr2": {1, 1}, "incr3": {1, 1, 1}, "cas2": {1, 1, 1}, "torn": {1, 1, 1}, "mixed": {1, 2, 1},
	"scan": {1, 2, 3}, "scan2": {1, 3, 1}, "gc": {1, 3, 2}, "gcdel": {1, 3, 1},
}

func concModelCfg(mix string, relaxed, stale bool, spec string, invs []string, props []string, extra string) cfg {
	c := cfg{Spec: spec, Constants: map[string]string{"KindName": `"` + mix + `"`, "Procs": "<-MProcs", "Kind": "<-MKind", "Keys": "<-MKeys", "RowOf": "<-MRowOf",
		"Batch": "1", "Relaxed": map[bool]string{true: "TRUE", false: "FALSE"}[relaxed], "GcStale": map[bool]string{true: "TRUE", false: "FALSE"}[stale]},
		Invariants: invs, Properties: props, Constraint: extra}
	return c
}

// cfg.Text writes "K = V"; substitution constants need "K <- V"
func (c cfg) TextSubst() string {
	t := c.Text()
	return string(bytes.ReplaceAll([]byte(t), []byte(" = <-"), []byte(" <- ")))
}

var concInvs = []string{"NoLostIncrement", "OneWinner", "NoTornRead", "ScanOrdered", "AckedWritesSurvive", "NoResurrection"}

// modelCheckConc: the safe configuration satisfies every property; the relaxed one (lock guards dropped) violates
// at least one for the mixes given (non-vacuity: the instrumented points are where preemption matters).
func (c *Ctx) modelCheckConc(mixes []string, expectRelaxedBad map[string]bool) {
	for _, mix := range mixes {
		safe := concModelCfg(mix, false, false, "Spec", append(append([]string{}, concInvs...), "LockOK"), nil, "")
		res, err := tlc.Run(tlc.Options{Module: "MC_BtConc", Cfg: safe.TextSubst(), Workers: 4, Timeout: 10 * time.Minute})
		if err != nil || res.ExitCode != 0 {
			c.Inconclusive("TLC MC_BtConc safe %s: %v %s", mix, err, res.Tail(6))
			continue
		}
		c.AddModel(res.Distinct, res.Generated)
		live := concModelCfg(mix, false, false, "FairSpec", nil, []string{"Termination"}, "")
		res, err = tlc.Run(tlc.Options{Module: "MC_BtConc", Cfg: live.TextSubst(), Workers: 4, Timeout: 10 * time.Minute})
		if err != nil || res.ExitCode != 0 {
			c.Inconclusive("TLC MC_BtConc liveness %s: %v %s", mix, err, res.Tail(6))
		}
		if expectRelaxedBad[mix] {
			rel := concModelCfg(mix, true, false, "Spec", concInvs, nil, "")
			res, err = tlc.Run(tlc.Options{Module: "MC_BtConc", Cfg: rel.TextSubst(), Workers: 4, Timeout: 10 * time.Minute})
			if err != nil {
				c.Inconclusive("TLC MC_BtConc relaxed %s: %v", mix, err)
			} else if res.InvViolated == "" {
				c.Inconclusive("the relaxed model of mix %s violates nothing: the check would be vacuous", mix)
			} else {
				c.Extra("relaxed_"+mix+"_violates", res.InvViolated)
			}
		}
	}
}

// schedulesConc: behaviours of the relaxed model as schedules: every one in which a property fails (adversarial)
// plus a sample of the others.
func (c *Ctx) schedulesConc(mix string, relaxed, stale bool, simulate int, keepGood int, r *rand.Rand) []concSched {
	cf := concModelCfg(mix, relaxed, stale, "SSpec", nil, nil, "PrintSched")
	opts := tlc.Options{Module: "MC_BtConcSched", Cfg: cf.TextSubst(), Workers: 4, Timeout: 15 * time.Minute, Seed: c.Seed}
	if simulate > 0 {
		opts.Simulate = fmt.Sprintf("num=%d", simulate)
		opts.Depth = 80
		opts.Workers = 1
	}
	res, err := tlc.Run(opts)
	if err != nil || res.ExitCode != 0 {
		c.Inconclusive("TLC MC_BtConcSched %s: %v %s", mix, err, res.Tail(6))
		return nil
	}
	var bad, good []concSched
	seen := map[string]bool{}
	for _, p := range res.Tag("SCHED") {
		var s concSched
		if seen[string(p[0])] {
			continue
		}
		seen[string(p[0])] = true
		if json.Unmarshal(p[0], &s) == nil {
			if s.Bad {
				bad = append(bad, s)
			} else {
				good = append(good, s)
			}
		}
	}
	r.Shuffle(len(good), func(a, b int) { good[a], good[b] = good[b], good[a] })
	if len(good) > keepGood {
		good = good[:keepGood]
	}
	return append(bad, good...)
}

var (
	concTable = btTable
	concNow   = int64(5_000_000)
)

func rowKey(i int) j.B { return j.S(fmt.Sprintf("row%04d", i)) }

// concrete request of an abstract kind
func concOp(kind string, row j.B, who string) bt.Op {
	switch kind {
	case "incr":
		return bt.Op{Ev: "ReadModifyWrite", T: concTable, K: row, Now: j.N64(concNow), Rules: []bt.RmwRule{{K: "incr", F: j.S("f"), Q: j.S("n"), Amt: j.B{0, 0, 0, 0, 0, 0, 0, 1}}}}
	case "cas": // sets the flag only if it is not set: predicate_matched = false means "I set it"
		return bt.Op{Ev: "CheckAndMutate", T: concTable, K: row, Now: j.N64(concNow), HasPred: true,
			Pred: &bt.Filter{K: "qualre", Re: &bt.Re{K: "cat", Xs: []bt.Re{{K: "lit", B: 'f'}, {K: "lit", B: 'l'}, {K: "lit", B: 'g'}}}},
			Fm:   []bt.Mut{{M: "set", F: j.S("f"), Q: j.S("flg"), Ts: 1000, V: j.S(who)}}}
	case "mut2":
		return bt.Op{Ev: "MutateRow", T: concTable, K: row, Now: j.N64(concNow), Muts: []bt.Mut{
			{M: "set", F: j.S("f"), Q: j.S("a"), Ts: 2000, V: j.S(who)}, {M: "set", F: j.S("f"), Q: j.S("b"), Ts: 2000, V: j.S(who)}}}
	case "del":
		return bt.Op{Ev: "MutateRow", T: concTable, K: row, Now: j.N64(concNow), Muts: []bt.Mut{{M: "delrow"}}}
	case "read":
		return bt.Op{Ev: "ReadRows", T: concTable, Rs: bt.RowSet{Keys: []j.B{row}}, Now: j.N64(concNow)}
	case "scan":
		return bt.Op{Ev: "ReadRows", T: concTable, Now: j.N64(concNow)}
	case "gc":
		return bt.Op{Ev: "GcPass", T: concTable, Now: j.N64(concNow)}
	case "rmwfail": // a valid append followed by an increment of a value that is not 8 bytes long: the request fails, nothing is stored
		return bt.Op{Ev: "ReadModifyWrite", T: concTable, K: row, Now: j.N64(concNow), Rules: []bt.RmwRule{
			{K: "append", F: j.S("f"), Q: j.S("ap"), V: j.S(who)}, {K: "incr", F: j.S("f"), Q: j.S("x"), Amt: j.B{0, 0, 0, 0, 0, 0, 0, 1}}}}
	case "mrows": // two entries on the same row, the first one failing at its second mutation (unknown family), the second one succeeding: all-or-nothing per entry
		return bt.Op{Ev: "MutateRows", T: concTable, Now: j.N64(concNow), Entries: []bt.Entry{
			{K: row, Muts: []bt.Mut{{M: "set", F: j.S("f"), Q: j.S("a"), Ts: 3000, V: j.S(who)}, {M: "set", F: j.S("nofam"), Q: j.S("b"), Ts: 3000, V: j.S(who)}}},
			{K: row, Muts: []bt.Mut{{M: "set", F: j.S("f"), Q: j.S("b"), Ts: 4000, V: j.S(who)}, {M: "set", F: j.S("f"), Q: j.S("c"), Ts: 2000, V: j.S(who)}}}}}
	}
	panic(kind)
}

// table of nrows rows row0001.. with one or two versions of f:x (two when gcRule is set, so that a pass has work)
func concSetup(nrows int, gcRule bool, cellsPerRow int) []bt.Op {
	rule := bt.Rule{T: "none"}
	if gcRule {
		rule = bt.Rule{T: "maxver", N: 1}
	}
	ops := []bt.Op{{Ev: "CreateTable", T: concTable, Parent: btParent, Fams: []bt.FamDef{{F: j.S("f"), Rule: rule}, {F: j.S("g"), Rule: bt.Rule{T: "none"}}}}}
	op := bt.Op{Ev: "MutateRows", T: concTable, Now: j.N64(concNow)}
	for i := 1; i <= nrows; i++ {
		var ms []bt.Mut
		for c := 0; c < cellsPerRow; c++ {
			ms = append(ms, bt.Mut{M: "set", F: j.S("f"), Q: j.S("x"), Ts: j.N64(int64(c) * 1000), V: j.S("v")})
		}
		op.Entries = append(op.Entries, bt.Entry{K: rowKey(i), Muts: ms})
	}
	return append(ops, op)
}

type concJob struct {
	engine string
	setup  []bt.Op
	procs  []btconc.Proc
	sched  []string
	opt    btconc.Options
	label  string
}

func runConcJob(id int, jb concJob) *btconc.Run {
	dir := ""
	if jb.engine == "disk" {
		dir = tmpDir()
	}
	s, err := bt.Start(jb.engine, dir)
	if err != nil {
		panic(err)
	}
	defer s.CloseAndRemove()
	s.AddParent(string(btParent))
	s.SetClock(concNow)
	return btconc.Execute(id, s, jb.setup, jb.procs, jb.sched, jb.opt)
}

type concReject struct {
	ID  int    `json:"id"`
	L   int    `json:"l"`
	Pt  string `json:"pt"`
	Why string `json:"why"`
}

// validateConc: TLC replays the runs one after the other; it stops at the first event it cannot explain (reported
// through a high-water mark); that run is recorded as rejected and validation continues with the runs after it.
func validateConc(runs []*btconc.Run) ([]concReject, error) {
	var out []concReject
	start := 0
	for start < len(runs) {
		var buf bytes.Buffer
		for _, r := range runs[start:] {
			buf.Write(j.Line(r))
		}
		if d := os.Getenv("VERIF_KEEP_TRACE"); d != "" {
			_ = os.WriteFile(fmt.Sprintf("%s/conc-%d-%d.ndjson", d, runs[start].ID, time.Now().UnixNano()%1000000), buf.Bytes(), 0644)
		}
		res, err := tlc.Run(tlc.Options{Module: "BtConcTrace", Cfg: "BtConcTrace.cfg", Workers: 1, HeapGB: 6, Timeout: 30 * time.Minute, Files: map[string][]byte{"trace.ndjson": buf.Bytes()}})
		if err != nil {
			return out, err
		}
		if res.ExitCode != 0 {
			return out, fmt.Errorf("TLC BtConcTrace exit %d: %v", res.ExitCode, firstN(res.ErrorLines, 4))
		}
		hw := res.Tag("HIGHWATER")
		if len(hw) == 0 {
			return out, fmt.Errorf("TLC BtConcTrace printed no high-water mark")
		}
		var h struct{ Run, L, Total int }
		if err := json.Unmarshal(hw[0][0], &h); err != nil {
			return out, err
		}
		if h.Run > h.Total {
			return out, nil
		}
		bad := runs[start+h.Run-1]
		cr := concReject{ID: bad.ID, L: h.L, Pt: "final read-back", Why: "the final read-back is not the state the commits produce"}
		if h.L <= len(bad.Events) {
			cr.Pt = bad.Events[h.L-1].P + " " + bad.Events[h.L-1].Pt
			cr.Why = "the specification does not allow this event here (or its reply / rows are not what the commits produce)"
		}
		out = append(out, cr)
		start += h.Run
	}
	return out, nil
}

// runConc executes all jobs (in parallel), validates the runs with TLC and confirms rejections by re-execution.
func (c *Ctx) runConc(label string, jobs []concJob) {
	runs := make([]*btconc.Run, len(jobs))
	var wg sync.WaitGroup
	sem := make(chan struct{}, 10)
	for i := range jobs {
		wg.Add(1)
		go func(i int) {
			defer wg.Done()
			sem <- struct{}{}
			defer func() { <-sem }()
			runs[i] = runConcJob(i+1, jobs[i])
		}(i)
	}
	wg.Wait()
	fmt.Fprintf(os.Stderr, "[%s] %d runs executed at %.1fs\n", label, len(jobs), time.Since(c.Start).Seconds())
	var ok []*btconc.Run
	for i, r := range runs {
		c.AddEval(1)
		b, _ := json.Marshal(struct {
			L string
			S []string
			E string
		}{jobs[i].label, jobs[i].sched, jobs[i].engine})
		c.Nontrivial(string(b))
		if len(r.Panics) > 0 {
			again := 0
			for t := 0; t < 4 && again == 0; t++ {
				if rr := runConcJob(i+1, jobs[i]); len(rr.Panics) > 0 {
					again++
				}
			}
			if again > 0 {
				c.Violation("", fmt.Sprintf("%s: engine %s, %s: %.300s (reproduced)", label, jobs[i].engine, jobs[i].label, r.Panics[0]),
					map[string]interface{}{"kind": "bt-conc", "job": jobs[i], "panic": r.Panics[0]})
			} else {
				c.Unreproduced("%s: a panic did not reproduce in 4 re-executions: %.200s", label, r.Panics[0])
			}
			continue
		}
		if len(r.Stuck) > 0 {
			// requests that never returned: re-run to tell a hang from a hiccup
			again := 0
			for t := 0; t < 2; t++ {
				if rr := runConcJob(i+1, jobs[i]); len(rr.Stuck) > 0 {
					again++
				}
			}
			if again == 2 {
				c.Violation("", fmt.Sprintf("%s: requests %v never returned (reproduced 3/3): engine %s, %s", label, r.Stuck, jobs[i].engine, jobs[i].label),
					map[string]interface{}{"kind": "bt-conc", "job": jobs[i], "stuck": r.Stuck})
			} else {
				c.Inconclusive("%s: requests %v did not return once (not reproduced)", label, r.Stuck)
			}
			continue
		}
		ok = append(ok, r)
	}
	// batches of about 12 runs per TLC process; runs on large tables (validation cost grows with the table) get
	// smaller batches so that they are validated in parallel
	weight := func(r *btconc.Run) int {
		w := 1
		for _, op := range r.Setup {
			w += len(op.Entries) / 40
		}
		return w
	}
	var mu sync.Mutex
	var rejects []concReject
	var vw sync.WaitGroup
	vsem := make(chan struct{}, 12)
	for lo := 0; lo < len(ok); {
		hi, w := lo, 0
		for hi < len(ok) && (hi == lo || w+weight(ok[hi]) <= 12) {
			w += weight(ok[hi])
			hi++
		}
		lo0 := lo
		lo = hi
		vw.Add(1)
		go func(lo, hi int) {
			defer vw.Done()
			vsem <- struct{}{}
			defer func() { <-vsem }()
			rj, err := validateConc(ok[lo:hi])
			if err != nil {
				c.Inconclusive("%s: BtConcTrace validation: %v", label, err)
				return
			}
			c.AddTraces(int64(hi-lo), 0)
			mu.Lock()
			rejects = append(rejects, rj...)
			mu.Unlock()
		}(lo0, hi)
	}
	vw.Wait()
	fmt.Fprintf(os.Stderr, "[%s] validated at %.1fs (%d rejected)\n", label, time.Since(c.Start).Seconds(), len(rejects))
	for n, rj := range rejects {
		if n >= 6 {
			fmt.Printf("  (%d further rejected runs not individually confirmed)\n", len(rejects)-6)
			break
		}
		jb := jobs[rj.ID-1]
		again := 0
		var last *btconc.Run
		var lastRj concReject
		for t := 0; t < 3; t++ {
			rr := runConcJob(1, jb)
			if len(rr.Stuck) > 0 {
				continue
			}
			if x, err := validateConc([]*btconc.Run{rr}); err == nil && len(x) > 0 {
				again++
				last, lastRj = rr, x[0]
			}
		}
		if again < 2 {
			c.Unreproduced("%s: run %d (%s, engine %s) was rejected at event %d (%s) but re-execution was accepted %d/3 times", label, rj.ID, jb.label, jb.engine, rj.L, rj.Pt, 3-again)
			continue
		}
		what := fmt.Sprintf("%s: engine %s, %s: the recorded concurrent run is not a behaviour of the specification (event %d %s: %s; reproduced %d/3)", label, jb.engine, jb.label, lastRj.L, lastRj.Pt, lastRj.Why, again)
		c.Violation("", what, map[string]interface{}{"kind": "bt-conc", "job": jb, "rejected_event": lastRj, "recorded_events": last.Events[:min(len(last.Events), 200)]})
	}
}

func (jb concJob) MarshalJSON() ([]byte, error) {
	type pj struct {
		Name string `json:"name"`
		Op   bt.Op  `json:"op"`
	}
	var ps []pj
	for _, p := range jb.procs {
		ps = append(ps, pj{p.Name, p.Op})
	}
	return json.Marshal(map[string]interface{}{"engine": jb.engine, "setup": stripProg(jb.setup), "procs": ps, "sched": jb.sched, "free": jb.opt.Free, "label": jb.label})
}

func procName(i int) string { return fmt.Sprintf("p%d", i) }

func jobsFromSchedules(scheds []concSched, engines []string, nrows int, gcRule bool, cells int) []concJob {
	var jobs []concJob
	for n, s := range scheds {
		kinds, rows := mixKinds[s.Mix], mixRows[s.Mix]
		var procs []btconc.Proc
		for i, k := range kinds {
			procs = append(procs, btconc.Proc{Name: procName(i + 1), Op: concOp(k, rowKey(rows[i]), procName(i+1))})
		}
		var sched []string
		for _, p := range s.Steps {
			sched = append(sched, procName(p))
		}
		jobs = append(jobs, concJob{engine: engines[n%len(engines)], setup: concSetup(nrows, gcRule, cells), procs: procs, sched: sched,
			label: fmt.Sprintf("mix %s, schedule %v", s.Mix, s.Steps)})
	}
	return jobs
}

// C06 Bigtable: every single-row write is all-or-nothing and linearizable per row.
func checkC06(c *Ctx) {
	c.rule = "cases = concurrent executions of single-row writes and reads on overlapping rows: (a) schedules = complete behaviours of the RELAXED BtConc model (lock guards dropped) for the mixes incr3, cas2, torn, mixed -- all behaviours in which the model loses an update / lets two check-and-sets win / shows a torn read, plus a sample of the others -- attempted on the real emulator through the hook gates (a step the real lock forbids simply does not happen), (b) free-running stress runs of 8-16 clients; every recorded run is validated by TLC (BtConcTrace: critical sections, commits in lock order replayed on BtData, every reply and the final read-back); failure atomicity of multi-mutation requests is covered sequentially by C01's machinery and here by MutateRows entries with an invalid second mutation; distinct = distinct (mix, schedule, engine); non-trivial = every case (two or more concurrent requests)"
	r := rand.New(rand.NewSource(c.Seed))
	mixes := []string{"incr3", "cas2", "torn", "mixed"}
	c.modelCheckConc(mixes, map[string]bool{"incr3": true, "cas2": true, "torn": true})
	keep := 40
	if !c.Quick() {
		keep = 220
	}
	var scheds []concSched
	for _, mix := range mixes {
		nsim := 1500
		if !c.Quick() {
			nsim = 40000
		}
		ss := c.schedulesConc(mix, true, false, nsim, keep, r)
		nb := 0
		for _, s := range ss {
			if s.Bad {
				nb++
			}
		}
		c.Extra("schedules_"+mix, map[string]int{"adversarial": nb, "other": len(ss) - nb})
		if c.Quick() && len(ss) > keep*3 {
			r.Shuffle(len(ss), func(a, b int) { ss[a], ss[b] = ss[b], ss[a] })
			ss = ss[:keep*3]
		}
		scheds = append(scheds, ss...)
	}
	if len(scheds) > 0 {
		c.Sample(map[string]interface{}{"source": "behaviour of the relaxed BtConc model used as a schedule", "schedule": scheds[0]})
	}
	engines := []string{"mem", "btree", "mem", "disk"}
	jobs := jobsFromSchedules(scheds, engines, 3, false, 1)
	// free-running stress: many clients on two rows
	nStress := 20
	if !c.Quick() {
		nStress = 400
	}
	kinds := []string{"incr", "incr", "cas", "mut2", "read", "mrows", "incr", "cas", "rmwfail", "read", "del", "incr", "mrows", "incr", "read", "mut2", "rmwfail"}
	for i := 0; i < nStress; i++ {
		var procs []btconc.Proc
		n := 8 + r.Intn(9)
		for p := 0; p < n; p++ {
			procs = append(procs, btconc.Proc{Name: procName(p + 1), Op: concOp(kinds[(p+i)%len(kinds)], rowKey(1+r.Intn(2)), procName(p+1))})
		}
		jobs = append(jobs, concJob{engine: []string{"mem", "btree", "disk"}[i%3], setup: concSetup(3, false, 1), procs: procs, opt: btconc.Options{Free: true}, label: fmt.Sprintf("free-running stress %d", i)})
	}
	c.Extra("stress_runs", nStress)
	fmt.Fprintf(os.Stderr, "[C06] schedules ready at %.1fs\n", time.Since(c.Start).Seconds())
	c.runConc("C06", jobs)
	c.Assume("TLC and the Json module are trusted; hooks are add-only one-liners under the build tag verif, requests are identified by gRPC metadata")
	c.Assume("the order of events logged inside the table lock is the lock order; replies are matched to commits, so log-order races outside the lock cannot cause a false alarm")
}

func init() {
	replayers["bt-conc"] = func(raw json.RawMessage) (bool, string) {
		var cs struct {
			Job struct {
				Engine string   `json:"engine"`
				Setup  []bt.Op  `json:"setup"`
				Sched  []string `json:"sched"`
				Free   bool     `json:"free"`
				Label  string   `json:"label"`
				Procs  []struct {
					Name string `json:"name"`
					Op   bt.Op  `json:"op"`
				} `json:"procs"`
			} `json:"job"`
		}
		if err := json.Unmarshal(raw, &cs); err != nil {
			return false, "inconclusive: " + err.Error()
		}
		jb := concJob{engine: cs.Job.Engine, setup: cs.Job.Setup, sched: cs.Job.Sched, opt: btconc.Options{Free: cs.Job.Free}, label: cs.Job.Label}
		for _, p := range cs.Job.Procs {
			jb.procs = append(jb.procs, btconc.Proc{Name: p.Name, Op: p.Op})
		}
		for t := 0; t < 3; t++ {
			rr := runConcJob(1, jb)
			if len(rr.Panics) > 0 {
				return true, rr.Panics[0]
			}
			if len(rr.Stuck) > 0 {
				return true, fmt.Sprintf("requests %v never returned", rr.Stuck)
			}
			x, err := validateConc([]*btconc.Run{rr})
			if err != nil {
				return false, "inconclusive: " + err.Error()
			}
			if len(x) > 0 {
				return true, fmt.Sprintf("rejected at event %d (%s): %s", x[0].L, x[0].Pt, x[0].Why)
			}
		}
		return false, "accepted (3 executions)"
	}
}

func firstN(xs []string, n int) []string {
	if len(xs) > n {
		return xs[:n]
	}
	return xs
}
