------------------------------ MODULE ChunkSM -------------------------------
(***************************************************************************)
(* The ReadRows cell-chunk stream (C03).  A chunk is a record              *)
(*  [hk, k, hf, f, hq, q, ts, v, commit, reset]  (hk/hf/hq: the key /      *)
(*  family / qualifier field is present).  Well-formedness as the client   *)
(*  chunk reader demands it, and decoding into rows.                       *)
(***************************************************************************)
EXTENDS Naturals, Sequences

\* reader state: inRow (a row is open), and the current key / family / qualifier
RECURSIVE WF(_, _, _, _)
WF(chunks, i, inRow, hasCol) ==
  IF i > Len(chunks) THEN ~inRow                       \* the stream ends between rows
  ELSE LET c == chunks[i] IN
       /\ ~c.reset                                     \* the emulator never resets a row
       /\ IF inRow
          THEN ~c.hk /\ (c.hf => c.hq)                 \* same row: no key; a new family comes with a qualifier
          ELSE c.hk /\ c.hf /\ c.hq /\ c.k # <<>>      \* each row starts with its key, family and qualifier
       /\ WF(chunks, i + 1, ~c.commit, TRUE)           \* exactly one commit ends the row

WellFormed(chunks) == WF(chunks, 1, FALSE, FALSE)

\* decode into a sequence of [k, cols] with cols = Seq([f, q, cells]) and cells = Seq([ts, v])
RECURSIVE Dec(_, _, _, _)
Dec(chunks, i, rows, cur) ==        \* cur: the open row or <<>>
  IF i > Len(chunks) THEN rows
  ELSE LET c    == chunks[i]
           base == IF c.hk THEN [k |-> c.k, cols |-> <<>>] ELSE cur
           cell == [ts |-> c.ts, v |-> c.v]
           cols == IF c.hq
                   THEN Append(base.cols, [f |-> IF c.hf THEN c.f ELSE base.cols[Len(base.cols)].f, q |-> c.q, cells |-> <<cell>>])
                   ELSE [base.cols EXCEPT ![Len(base.cols)].cells = Append(@, cell)]
           row  == [k |-> base.k, cols |-> cols]
       IN IF c.commit THEN Dec(chunks, i + 1, Append(rows, row), <<>>) ELSE Dec(chunks, i + 1, rows, row)

Decode(chunks) == Dec(chunks, 1, <<>>, <<>>)
=============================================================================
