// dbg <replay.json>: runs the program of a bt-seq replay file on the engine it names and prints every event (debug aid).
package main

import (
	"encoding/json"
	"fmt"
	"os"

	"verif/harness/internal/bt"
	"verif/harness/internal/j"
)

func main() {
	b, _ := os.ReadFile(os.Args[1])
	var f struct {
		Case struct {
			Engine  string  `json:"engine"`
			Program []bt.Op `json:"program"`
		} `json:"case"`
	}
	if err := json.Unmarshal(b, &f); err != nil {
		panic(err)
	}
	dir, _ := os.MkdirTemp("", "dbg")
	defer os.RemoveAll(dir)
	s, err := bt.Start(f.Case.Engine, dir)
	if err != nil {
		panic(err)
	}
	defer s.Close()
	for _, e := range s.Run(1, f.Case.Program) {
		fmt.Print(string(j.Line(e)))
	}
}
