------------------------------- MODULE GcsData ------------------------------
(***************************************************************************)
(* Sequential specification of the Cloud Storage emulator (JSON API):      *)
(* buckets, objects (content, MD5 token, content type and the other        *)
(* user-settable attributes, user metadata, generation, metageneration),   *)
(* the per-name generation history, and pending resumable uploads.         *)
(* This is the INTENDED design: the one in which properties C02 C04 C10    *)
(* C11 C15 (and, per store, C09) hold.                                     *)
(*                                                                         *)
(* st = [buckets : function bucket -> function name -> object,             *)
(*       maxGen  : function <<bucket, name>> -> greatest generation ever,  *)
(*       uploads : function id -> [b, n, meta, conds, data, decl]]         *)
(* object = [content, md5, attrs, meta, gen, metagen]                      *)
(*   attrs: record of byte strings ct cc cd ce cl (content type, cache     *)
(*   control, content disposition / encoding / language)                   *)
(*   meta : function key -> value (user metadata)                          *)
(* Generations are compared only by < and =: the harness replaces the      *)
(* wall-clock numbers of a trace by their ranks.                           *)
(*                                                                         *)
(* Step(st, e) = set of outcomes [st, resp]; resp.codes is the SET of      *)
(* allowed HTTP status codes, the rest of resp is what a success reports.  *)
(***************************************************************************)
EXTENDS Bytes, Integers, Sequences, FiniteSets, TLC

InitSt == [buckets |-> <<>>, maxGen |-> <<>>, uploads |-> <<>>, uorder |-> <<>>, gz |-> <<>>]

HasBucket(st, b) == b \in DOMAIN st.buckets
Objs(st, b)      == IF HasBucket(st, b) THEN st.buckets[b] ELSE <<>>
HasObj(st, b, n) == HasBucket(st, b) /\ n \in DOMAIN st.buckets[b]
Obj(st, b, n)    == st.buckets[b][n]
MaxGen(st, b, n) == IF <<b, n>> \in DOMAIN st.maxGen THEN st.maxGen[<<b, n>>] ELSE 0

EmptyAttrs == [ct |-> <<>>, cc |-> <<>>, cd |-> <<>>, ce |-> <<>>, cl |-> <<>>]
\* a sequence of [k, v] pairs as a function (later pairs win)
RECURSIVE PairsToFn(_, _)
PairsToFn(ps, f) == IF ps = <<>> THEN f
                    ELSE LET p == Head(ps) IN PairsToFn(Tail(ps), [x \in (DOMAIN f) \cup {p.k} |-> IF x = p.k THEN p.v ELSE f[x]])
\* attrs from a sequence of [k \in {"ct","cc","cd","ce","cl"}, v]
RECURSIVE SetAttrs(_, _)
SetAttrs(a, ps) == IF ps = <<>> THEN a
                   ELSE LET p == Head(ps) IN
                        SetAttrs(CASE p.k = "ct" -> [a EXCEPT !.ct = p.v] [] p.k = "cc" -> [a EXCEPT !.cc = p.v]
                                   [] p.k = "cd" -> [a EXCEPT !.cd = p.v] [] p.k = "ce" -> [a EXCEPT !.ce = p.v]
                                   [] p.k = "cl" -> [a EXCEPT !.cl = p.v] [] OTHER -> a, Tail(ps))

PutObj(st, b, n, o) == TLCEval(
  [st EXCEPT !.buckets = [x \in (DOMAIN st.buckets) \cup {b} |->
                            IF x = b THEN [y \in (DOMAIN Objs(st, b)) \cup {n} |-> IF y = n THEN o ELSE Objs(st, b)[y]]
                            ELSE st.buckets[x]],
             !.maxGen = [x \in (DOMAIN st.maxGen) \cup {<<b, n>>} |-> IF x = <<b, n>> THEN o.gen ELSE st.maxGen[x]]])
DelObj(st, b, n) ==
  TLCEval([st EXCEPT !.buckets[b] = [y \in (DOMAIN st.buckets[b]) \ {n} |-> st.buckets[b][y]]])

(***************************** preconditions (C04) **************************)
(* conds = [gm, gnm, mm, mnm], each [k |-> "unset"] | [k |-> "val", v |-> number] | [k |-> "bad"]          *)
Unset(c) == c.k = "unset"
NoConds == LET u == [k |-> "unset"] IN [gm |-> u, gnm |-> u, mm |-> u, mnm |-> u]
AllUnset(c) == Unset(c.gm) /\ Unset(c.gnm) /\ Unset(c.mm) /\ Unset(c.mnm)
BadConds(c) == c.gm.k = "bad" \/ c.gnm.k = "bad" \/ c.mm.k = "bad" \/ c.mnm.k = "bad"
\* the sets of supplied conditions that fail against object o (or its absence)
MatchFails(c, present, o) ==
  (IF ~Unset(c.gm) /\ (IF present THEN c.gm.v # o.gen ELSE c.gm.v # 0) THEN {"gm"} ELSE {}) \cup
  (IF ~Unset(c.mm) /\ (~present \/ c.mm.v # o.metagen) THEN {"mm"} ELSE {})
NotMatchFails(c, present, o) ==
  (IF ~Unset(c.gnm) /\ (~present \/ c.gnm.v = o.gen) THEN {"gnm"} ELSE {}) \cup
  (IF ~Unset(c.mnm) /\ (~present \/ c.mnm.v = o.metagen) THEN {"mnm"} ELSE {})
Holds(c, present, o) == MatchFails(c, present, o) = {} /\ NotMatchFails(c, present, o) = {}
\* 412, or 304 when a failing condition is a not-match one; either when both kinds fail
FailCodes(c, present, o) ==
  (IF MatchFails(c, present, o) # {} THEN {412} ELSE {}) \cup (IF NotMatchFails(c, present, o) # {} THEN {304} ELSE {})
  \cup (IF ~present THEN {412} ELSE {})
AbsentObj == [gen |-> 0, metagen |-> 0]

Out(s, r) == [st |-> s, resp |-> r]
Fail(st, codes) == {Out(st, [codes |-> codes, ok |-> FALSE])}

(******************************** buckets ***********************************)
CreateBucket(st, e) ==
  {Out(IF HasBucket(st, e.b) THEN st ELSE [st EXCEPT !.buckets = [x \in (DOMAIN st.buckets) \cup {e.b} |-> IF x = e.b THEN <<>> ELSE st.buckets[x]]],
       [codes |-> {200}, ok |-> TRUE])}
GetBucket(st, e) == IF HasBucket(st, e.b) THEN {Out(st, [codes |-> {200}, ok |-> TRUE])} ELSE Fail(st, {404})
DeleteBucket(st, e) ==
  IF ~HasBucket(st, e.b) THEN Fail(st, {404})
  ELSE {Out([st EXCEPT !.buckets = [x \in (DOMAIN st.buckets) \ {e.b} |-> st.buckets[x]]], [codes |-> {204}, ok |-> TRUE])}

(******************************** uploads (C02 C04 C10) *********************)
(* e.b, e.n, e.content, e.md5 (token of the content computed by the harness), e.decl \in {"none","ok","wrong","invalid"},  *)
(* e.attrs : Seq([k, v]), e.meta : Seq([k, v]), e.conds, e.gen (the generation the reply reported: the logged choice)      *)
NewObject(e, content, md5, attrs, meta, gen) ==
  [content |-> content, md5 |-> md5, attrs |-> SetAttrs(EmptyAttrs, attrs), meta |-> PairsToFn(meta, <<>>), gen |-> gen, metagen |-> 1]

\* the commit of a content write: MD5 check, conditions, then the whole record is replaced
Commit(st, b, n, content, md5, decl, attrs, meta, conds, gen, okCode) ==
  LET present == HasObj(st, b, n)
      o == IF present THEN Obj(st, b, n) ELSE AbsentObj
  IN IF decl \in {"wrong", "invalid"} THEN Fail(st, {400})
     ELSE IF ~Holds(conds, present, o) THEN Fail(st, FailCodes(conds, present, o))
     ELSE IF gen <= MaxGen(st, b, n) THEN {}        \* a new generation exceeds every earlier one of that name (C10)
     ELSE {Out(PutObj(st, b, n, NewObject(0, content, md5, attrs, meta, gen)),
               [codes |-> {okCode}, ok |-> TRUE, gen |-> gen, metagen |-> 1, md5 |-> md5, size |-> Len(content)])}

Upload(st, e) ==      \* simple media and multipart uploads: one request
  IF BadConds(e.conds) THEN Fail(st, {400})
  ELSE Commit(st, e.b, e.n, e.content, e.md5, e.decl, e.attrs, e.meta, e.conds, e.gen, 200)

\* resumable protocol (C02): start captures name, metadata and conditions; each PUT carries a slice
\* The server remembers at most UploadCap sessions, least recently used first out (gcsemu.go: gcache.New(1024).LRU());
\* st.uorder lists the live session ids from least to most recently used. Starting a session and every request that
\* names a live session (whatever it then answers) make that session the most recently used one.
UploadCap == 1024
Without(seq, id) == SelectSeq(seq, LAMBDA x : x # id)
Touch(st, id) == [st EXCEPT !.uorder = Append(Without(st.uorder, id), id)]
Evict(st) == IF Len(st.uorder) <= UploadCap THEN st
             ELSE LET old == Head(st.uorder)
                  IN [st EXCEPT !.uploads = [x \in (DOMAIN st.uploads) \ {old} |-> st.uploads[x]], !.uorder = Tail(st.uorder)]
ResumableStart(st, e) ==     \* e.id : the upload id the server handed out
  IF BadConds(e.conds) THEN Fail(st, {400})
  ELSE {Out(Evict(Touch([st EXCEPT !.uploads = [x \in (DOMAIN st.uploads) \cup {e.id} |->
               IF x = e.id THEN [b |-> e.b, n |-> e.n, attrs |-> e.attrs, meta |-> e.meta, conds |-> e.conds, decl |-> e.decl, data |-> <<>>]
               ELSE st.uploads[x]]], e.id)), [codes |-> {200}, ok |-> TRUE])}

DropUpload(st, id) == [st EXCEPT !.uploads = [x \in (DOMAIN st.uploads) \ {id} |-> st.uploads[x]], !.uorder = Without(st.uorder, id)]
\* e.lo = -1: no bytes (status query); e.total = -1: unknown ("*"); e.data: the slice; e.md5full: token of the assembled bytes
ResumablePut(st0, e) ==
  IF e.id \notin DOMAIN st0.uploads THEN Fail(st0, {400, 404, 410, 500})        \* unknown, finished or evicted session: an error, nothing changes
  ELSE LET st == Touch(st0, e.id)
           u == st.uploads[e.id]
           have == Len(u.data)
       IN IF e.lo > have THEN Fail(st, {400})                         \* a gap: bytes missing
          ELSE LET data == IF e.lo = -1 THEN u.data ELSE SubSeq(u.data, 1, e.lo) \o e.data
                   done == e.total >= 0 /\ Len(data) >= e.total
               IN IF ~done
                  THEN {Out([st EXCEPT !.uploads[e.id].data = data], [codes |-> {308}, ok |-> TRUE, persisted |-> Len(data)])}
                  ELSE { IF o.resp.ok THEN Out(DropUpload(o.st, e.id), o.resp)
                         ELSE Out([st EXCEPT !.uploads[e.id].data = data], o.resp)          \* a failed completion keeps the session
                         : o \in Commit(st, u.b, u.n, data, e.md5full, u.decl, u.attrs, u.meta, u.conds, e.gen, 200) }

(******************************** reads *************************************)
ObjView(o) == [gen |-> o.gen, metagen |-> o.metagen, md5 |-> o.md5, size |-> Len(o.content), attrs |-> o.attrs, meta |-> o.meta]
\* Decompressive transcoding: an object labelled contentEncoding "gzip" is served as stored (with Content-Encoding: gzip)
\* to a client that accepts gzip and decompressed to one that does not. gunzip itself is a codec outside this
\* specification: st.gz is the table of (stored bytes -> plain bytes) pairs the client declared when it uploaded gzip
\* data (e.isgz / e.plain); for labelled content that is not in the table (not gzip at all, or a concatenation made by
\* compose) the decompressed reply is not determined here (amb): a 200 with the right headers or a 500.
GzipTok == <<103, 122, 105, 112>>
Learn(st, e) == IF e.ev = "Upload" /\ "isgz" \in DOMAIN e /\ e.isgz THEN [st EXCEPT !.gz = (e.content :> e.plain) @@ st.gz] ELSE st
GetMedia(st, e) ==
  IF ~HasObj(st, e.b, e.n) THEN Fail(st, {404})
  ELSE LET o == Obj(st, e.b, e.n)
           base == [codes |-> {200}, ok |-> TRUE, view |-> ObjView(o)]
       IN IF o.attrs.ce # GzipTok THEN {Out(st, base @@ [body |-> o.content, enc |-> <<>>])}
          ELSE IF "acceptGz" \in DOMAIN e /\ e.acceptGz THEN {Out(st, base @@ [body |-> o.content, enc |-> GzipTok])}
          ELSE IF o.content \in DOMAIN st.gz THEN {Out(st, base @@ [body |-> st.gz[o.content], enc |-> <<>>])}
          ELSE {Out(st, base @@ [body |-> <<>>, enc |-> <<>>, amb |-> TRUE])} \cup Fail(st, {500})
GetMeta(st, e)  == IF HasObj(st, e.b, e.n)
                   THEN {Out(st, [codes |-> {200}, ok |-> TRUE, view |-> ObjView(Obj(st, e.b, e.n))])}
                   ELSE Fail(st, {404})

(******************************** patch / delete (C04 C10) ******************)
Patch(st, e) ==      \* e.attrs, e.meta: only the supplied fields; e.badBody: the JSON body does not parse
  IF BadConds(e.conds) THEN Fail(st, {400})
  ELSE IF ~HasObj(st, e.b, e.n) THEN Fail(st, {404} \cup (IF ~AllUnset(e.conds) THEN FailCodes(e.conds, FALSE, AbsentObj) ELSE {}))
  ELSE LET o == Obj(st, e.b, e.n) IN
       IF ~Holds(e.conds, TRUE, o) THEN Fail(st, FailCodes(e.conds, TRUE, o))
       ELSE IF e.badBody THEN Fail(st, {400})
       ELSE LET o2 == [o EXCEPT !.attrs = SetAttrs(o.attrs, e.attrs), !.meta = PairsToFn(e.meta, o.meta), !.metagen = o.metagen + 1]
            IN {Out([st EXCEPT !.buckets[e.b][e.n] = o2], [codes |-> {200}, ok |-> TRUE, view |-> ObjView(o2)])}

Delete(st, e) ==
  IF BadConds(e.conds) THEN Fail(st, {400})
  ELSE IF ~HasObj(st, e.b, e.n) THEN Fail(st, {404} \cup (IF ~AllUnset(e.conds) THEN FailCodes(e.conds, FALSE, AbsentObj) ELSE {}))
  ELSE LET o == Obj(st, e.b, e.n) IN
       IF ~Holds(e.conds, TRUE, o) THEN Fail(st, FailCodes(e.conds, TRUE, o))
       ELSE {Out(DelObj(st, e.b, e.n), [codes |-> {204}, ok |-> TRUE])}

(******************************** compose / copy (C15) **********************)
\* e.srcs : Seq([n, gm]) with gm a condition record; e.n the destination; e.attrs/e.meta from the request
RECURSIVE SrcCheck(_, _, _, _)
SrcCheck(st, b, srcs, i) ==      \* "ok" | a set of failure codes
  IF i > Len(srcs) THEN {}
  ELSE IF ~HasObj(st, b, srcs[i].n) THEN {404}
  ELSE LET c == [NoConds EXCEPT !.gm = srcs[i].gm] IN
       IF ~Unset(srcs[i].gm) /\ srcs[i].gm.k = "val" /\ srcs[i].gm.v # 0 /\ ~Holds(c, TRUE, Obj(st, b, srcs[i].n)) THEN {412}
       ELSE SrcCheck(st, b, srcs, i + 1)

Compose(st, e) ==
  IF BadConds(e.conds) THEN Fail(st, {400})
  ELSE IF Len(e.srcs) > 32 THEN Fail(st, {400})
  ELSE LET bad == SrcCheck(st, e.b, e.srcs, 1) IN
       IF bad # {} THEN Fail(st, bad)
       ELSE LET content == ConcatAll([i \in 1..Len(e.srcs) |-> Obj(st, e.b, e.srcs[i].n).content])
            IN (IF Len(e.srcs) = 0 THEN Fail(st, {400}) ELSE {}) \cup       \* zero sources: 400 or an empty object
               Commit(st, e.b, e.n, content, <<>>, "none", e.attrs, e.meta, e.conds, e.gen, 200)

Copy(st, e) ==       \* e.b e.n source, e.db e.dn destination
  IF ~HasObj(st, e.b, e.n) THEN Fail(st, {404})
  ELSE LET s == Obj(st, e.b, e.n) IN
       IF e.gen <= MaxGen(st, e.db, e.dn) THEN {}
       ELSE LET d == [s EXCEPT !.gen = e.gen, !.metagen = 1] IN
            {Out(PutObj(st, e.db, e.dn, d), [codes |-> {200}, ok |-> TRUE, view |-> ObjView(d), size |-> Len(s.content)])}

(******************************** listing (C11) *****************************)
\* see GcsList.tla for the acceptance of a whole pagination; the state is unchanged
List(st, e) == IF HasBucket(st, e.b) THEN {Out(st, [codes |-> {200}, ok |-> TRUE])} ELSE Fail(st, {404})

(******************************** persistence (C09) *************************)
\* stopping the emulator (cleanly or by a kill between requests) and starting it again on the same directory:
\* every bucket and object is served as last acknowledged; pending resumable sessions are gone
Restart(st, e) == {Out([st EXCEPT !.uploads = <<>>, !.uorder = <<>>], [codes |-> {0}, ok |-> TRUE])}
\* a content file without a metadata sidecar appears in the directory (written by an older version / by hand):
\* it is served with that content; its generation and metageneration are whatever the first read reports (logged)
LegacyFile(st, e) ==
  IF HasObj(st, e.b, e.n) THEN {}
  ELSE {Out(PutObj(st, e.b, e.n, [content |-> e.content, md5 |-> <<>>, attrs |-> EmptyAttrs, meta |-> <<>>, gen |-> e.gen, metagen |-> e.metagen]),
            [codes |-> {0}, ok |-> TRUE])}

Step1(st0, e) ==
  LET st == Learn(st0, e) IN
  CASE e.ev = "CreateBucket" -> CreateBucket(st, e)
    [] e.ev = "GetBucket"    -> GetBucket(st, e)
    [] e.ev = "DeleteBucket" -> DeleteBucket(st, e)
    [] e.ev = "Upload"       -> Upload(st, e)
    [] e.ev = "ResumableStart" -> ResumableStart(st, e)
    [] e.ev = "ResumablePut" -> ResumablePut(st, e)
    [] e.ev = "GetMedia"     -> GetMedia(st, e)
    [] e.ev = "GetMeta"      -> GetMeta(st, e)
    [] e.ev = "Patch"        -> Patch(st, e)
    [] e.ev = "Delete"       -> Delete(st, e)
    [] e.ev = "Compose"      -> Compose(st, e)
    [] e.ev = "Copy"         -> Copy(st, e)
    [] e.ev = "List"         -> List(st, e)
    [] e.ev = "Restart"      -> Restart(st, e)
    [] e.ev = "LegacyFile"   -> LegacyFile(st, e)
    [] OTHER -> {}

(********************************* batch ************************************)
(* POST /batch/storage/v1: the parts are executed one after the other, each on the state the previous one left,    *)
(* and answered in the same order (a failing part does not stop the batch); the batch itself answers 200.          *)
RECURSIVE BatchFrom(_, _, _, _)
BatchFrom(st, parts, i, acc) ==
  IF i > Len(parts) THEN {Out(st, [codes |-> {200}, ok |-> TRUE, parts |-> acc])}
  ELSE UNION { BatchFrom(o.st, parts, i + 1, Append(acc, o.resp)) : o \in Step1(st, parts[i]) }

Step(st, e) == IF e.ev = "Batch" THEN BatchFrom(st, e.parts, 1, <<>>) ELSE Step1(st, e)

(***************************************************************************)
(* Design invariants / laws (checked by TLC on the bounded models)         *)
(***************************************************************************)
\* a live object's generation is the greatest its name ever had; metageneration >= 1
GenInv(st) == \A b \in DOMAIN st.buckets : \A n \in DOMAIN st.buckets[b] :
                 st.buckets[b][n].gen = MaxGen(st, b, n) /\ st.buckets[b][n].gen > 0 /\ st.buckets[b][n].metagen >= 0
=============================================================================
