package gcs

import "sort"

// RankGens replaces every generation-like number of a recorded trace (reported generations, condition
// values sent) by its rank among all of them: an order isomorphism, so that the numbers fit TLC's
// 32-bit integers. 0 (absent / "must not exist") stays 0.
func RankGens(evs []Op) {
	RankVisit(func(f func(*int64)) { VisitOps(evs, f) })
}

// VisitOps applies f to every generation-like number of the given events.
func VisitOps(evs []Op, f func(*int64)) {
	visitView := func(v *View, f func(*int64)) { f(&v.Gen) }
	{
		for i := range evs {
			e := &evs[i]
			f(&e.Gen)
			for _, c := range []*Cond{&e.Conds.Gm, &e.Conds.Gnm} {
				if c.K == "val" {
					f(&c.V)
				}
			}
			for k := range e.Srcs {
				if e.Srcs[k].Gm.K == "val" {
					f(&e.Srcs[k].Gm.V)
				}
			}
			if len(e.Parts) > 0 {
				VisitOps(e.Parts, f)
			}
			if e.Resp != nil {
				for k := range e.Resp.Parts {
					if pr := e.Resp.Parts[k].Resp; pr != nil {
						f(&pr.Hgen)
						visitView(&pr.View, f)
					}
				}
				f(&e.Resp.Hgen)
				visitView(&e.Resp.View, f)
				for p := range e.Resp.Pages {
					for it := range e.Resp.Pages[p].Items {
						visitView(&e.Resp.Pages[p].Items[it].View, f)
					}
				}
			}
			if e.Obs != nil {
				for b := range e.Obs.Buckets {
					for o := range e.Obs.Buckets[b].Objs {
						visitView(&e.Obs.Buckets[b].Objs[o].View, f)
						f(&e.Obs.Buckets[b].Objs[o].MediaGen)
					}
				}
			}
		}
	}
}

// VisitObs applies f to every generation of a read-back.
func VisitObs(o *Obs, f func(*int64)) {
	if o == nil {
		return
	}
	for b := range o.Buckets {
		for i := range o.Buckets[b].Objs {
			f(&o.Buckets[b].Objs[i].View.Gen)
			f(&o.Buckets[b].Objs[i].MediaGen)
		}
	}
}

// RankVisit ranks all the numbers the visitor reaches.
func RankVisit(visit func(f func(*int64))) {
	set := map[int64]bool{}
	visit(func(p *int64) {
		if *p != 0 {
			set[*p] = true
		}
	})
	var all []int64
	for v := range set {
		all = append(all, v)
	}
	sort.Slice(all, func(a, b int) bool { return all[a] < all[b] })
	rank := map[int64]int64{}
	for i, v := range all {
		rank[v] = int64(i + 1)
	}
	visit(func(p *int64) {
		if *p != 0 {
			*p = rank[*p]
		}
	})
}
