------------------------------- MODULE Bytes -------------------------------
(***************************************************************************)
(* Byte strings are sequences over 0..255.  Row keys, family names,        *)
(* qualifiers, values, object names (UTF-8) are all byte strings, ordered  *)
(* bytewise exactly like Go's bytes.Compare / string comparison.           *)
(***************************************************************************)
EXTENDS Naturals, Sequences, FiniteSets
LOCAL INSTANCE SequencesExt   \* SetToSortSeq (LOCAL: its other names stay out of the modules that extend this one)

Byte == 0..255

Min2(a, b) == IF a < b THEN a ELSE b

\* index of the first position at which a and b differ, or Min(len)+1
RECURSIVE FirstDiff(_, _, _)
FirstDiff(a, b, i) ==
  IF i > Len(a) \/ i > Len(b) THEN i
  ELSE IF a[i] # b[i] THEN i ELSE FirstDiff(a, b, i + 1)

\* -1, 0, 1 like bytes.Compare (encoded 0 = less, 1 = equal, 2 = greater to stay in Naturals)
BCmp(a, b) ==
  LET i == FirstDiff(a, b, 1) IN
    IF i <= Len(a) /\ i <= Len(b) THEN (IF a[i] < b[i] THEN 0 ELSE 2)
    ELSE IF Len(a) = Len(b) THEN 1
    ELSE IF Len(a) < Len(b) THEN 0 ELSE 2

BLess(a, b) == BCmp(a, b) = 0
BLe(a, b)   == BCmp(a, b) # 2

IsPrefixB(p, s) == Len(p) <= Len(s) /\ SubSeq(s, 1, Len(p)) = p

\* the byte string s followed by one zero byte: the immediate successor of s
Succ0(s) == Append(s, 0)

\* ascending sequence of the members of a finite set of byte strings (SetToSortSeq: TLC sorts natively; the
\* recursive selection sort this replaces was cubic and dominated trace validation on tables of 1000 rows)
SortBytes(S) == SetToSortSeq(S, BLess)

\* first index at which sub occurs in s at or after position from (1-based), 0 if none
RECURSIVE IndexFrom(_, _, _)
IndexFrom(s, sub, from) ==
  IF from + Len(sub) - 1 > Len(s) THEN 0
  ELSE IF SubSeq(s, from, from + Len(sub) - 1) = sub THEN from
  ELSE IndexFrom(s, sub, from + 1)

RECURSIVE ConcatAll(_)
ConcatAll(ss) == IF ss = <<>> THEN <<>> ELSE Head(ss) \o ConcatAll(Tail(ss))
=============================================================================
