// verif: the driver of /verif's model-based checks (see /verif/DESIGN.md).
//
//	verif check --property C01 --tier quick|thorough [--seed N]
//	verif replay <path>
package main

import (
	"encoding/json"
	"flag"
	"fmt"
	"io"
	"log"
	"os"
	"runtime/debug"
	"strconv"
)

var checks = map[string]func(*Ctx){}

func main() {
	// a soft limit: the collector works harder instead of letting the heap of a long thorough run double past the machine
	debug.SetMemoryLimit(24 << 30)
	if os.Getenv("VERIF_LOG") == "" {
		log.SetOutput(io.Discard) // the emulator logs bad patterns etc.; not part of any observation
	}
	if len(os.Args) < 2 {
		fmt.Fprintln(os.Stderr, "usage: verif check --property Cxx --tier quick|thorough | verif replay <path>")
		os.Exit(2)
	}
	switch os.Args[1] {
	case "check":
		fs := flag.NewFlagSet("check", flag.ExitOnError)
		prop := fs.String("property", "", "property id")
		tier := fs.String("tier", os.Getenv("VERIF_TIER"), "quick|thorough")
		seed := fs.Int64("seed", 0, "seed")
		_ = fs.Parse(os.Args[2:])
		if *tier == "" {
			*tier = "quick"
		}
		if *seed == 0 {
			if s := os.Getenv("VERIF_SEED"); s != "" {
				if v, err := strconv.ParseInt(s, 10, 64); err == nil {
					*seed = v
				}
			}
		}
		if *seed == 0 {
			*seed = 1
		}
		fn, ok := checks[*prop]
		if !ok {
			fmt.Fprintf(os.Stderr, "no check for property %q\n", *prop)
			os.Exit(2)
		}
		c := newCtx(*prop, *tier, *seed)
		func() {
			defer func() {
				if r := recover(); r != nil {
					c.Inconclusive("harness panic: %v", r)
				}
			}()
			fn(c)
		}()
		os.Exit(c.Finish())
	case "race":
		os.Exit(raceMain(os.Args[2:]))
	case "shrink":
		if len(os.Args) < 3 {
			os.Exit(2)
		}
		os.Exit(shrinkMain(os.Args[2]))
	case "replay":
		if len(os.Args) < 3 {
			os.Exit(2)
		}
		os.Exit(replay(os.Args[2]))
	default:
		fmt.Fprintln(os.Stderr, "unknown command", os.Args[1])
		os.Exit(2)
	}
}

func replay(path string) int {
	b, err := os.ReadFile(path)
	if err != nil {
		fmt.Fprintln(os.Stderr, err)
		return 2
	}
	var f struct {
		Property string          `json:"property"`
		What     string          `json:"what"`
		Case     json.RawMessage `json:"case"`
	}
	if err := json.Unmarshal(b, &f); err != nil {
		fmt.Fprintln(os.Stderr, err)
		return 2
	}
	var kind struct {
		Kind string `json:"kind"`
	}
	_ = json.Unmarshal(f.Case, &kind)
	fmt.Printf("replaying %s case of %s: %s\n", kind.Kind, f.Property, f.What)
	fn, ok := replayers[kind.Kind]
	if !ok {
		fmt.Fprintln(os.Stderr, "no replayer for kind", kind.Kind)
		return 2
	}
	fails, msg := fn(f.Case)
	fmt.Println(msg)
	if fails {
		fmt.Printf("VIOLATION property=%s replay=%s\n", f.Property, path)
		return 1
	}
	return 0
}

var replayers = map[string]func(json.RawMessage) (bool, string){
	"bt-seq": func(raw json.RawMessage) (bool, string) {
		var cs btCase
		if err := json.Unmarshal(raw, &cs); err != nil {
			return false, "inconclusive: " + err.Error()
		}
		concretise([][]btOp{cs.Program})
		return replayBtCase(cs)
	},
}
