------------------------------- MODULE BtData -------------------------------
(***************************************************************************)
(* Sequential specification of the Bigtable emulator: the registry of      *)
(* tables, their schemas (column families with GC rules) and rows, and one *)
(* action per RPC.  This is the INTENDED design: the one in which          *)
(* properties C01 C03 C05 C12 C13 C14 C16(policy) C17 hold.                *)
(*                                                                         *)
(* st = [tables |-> function tableName -> [parent, fams, rows]]            *)
(*   fams : function familyName -> GC rule     rows : function key -> row  *)
(*                                                                         *)
(* Step(st, op) is the set of outcomes [st, resp] of one request.  The     *)
(* model-checking modules (spec/mc) drive it with small universes of op    *)
(* records; the trace module (BtTrace) drives it with logged requests.     *)
(*                                                                         *)
(* resp fields: ok (BOOLEAN), code (gRPC code required, -1 = any non-OK    *)
(* code, 0 = OK), plus a payload that depends on the request.              *)
(***************************************************************************)
EXTENDS BtRow, BtFilter, BtRowSet, BtGC

InitSt == [tables |-> <<>>]

NotFoundCode == 5
AlreadyExistsCode == 6
InvalidArgCode == 3

Tbl(st, t)     == st.tables[t]
HasTbl(st, t)  == t \in DOMAIN st.tables
FamSet(st, t)  == DOMAIN st.tables[t].fams
RowOf(st, t, k) == IF k \in DOMAIN st.tables[t].rows THEN st.tables[t].rows[k] ELSE NoRow

\* store row r under key k (removing the key when r has no cell)
PutRow(rows, k, r) ==
  IF r = NoRow THEN TLCEval([x \in (DOMAIN rows) \ {k} |-> rows[x]])
  ELSE TLCEval([x \in (DOMAIN rows) \cup {k} |-> IF x = k THEN r ELSE rows[x]])

WithRows(st, t, rows) == TLCEval([st EXCEPT !.tables[t].rows = rows])
WithRow(st, t, k, r)  == WithRows(st, t, PutRow(st.tables[t].rows, k, r))

Out(s, r) == [st |-> s, resp |-> r]
OkResp  == [ok |-> TRUE, code |-> 0]
ErrAny  == [ok |-> FALSE, code |-> -1]
ErrCode(c) == [ok |-> FALSE, code |-> c]
NotFound(st) == {Out(st, ErrCode(NotFoundCode))}

(************************* table administration (C14) **********************)
CreateTable(st, op) ==          \* op.t name, op.parent, op.fams : Seq([f, rule])
  IF HasTbl(st, op.t) THEN {Out(st, ErrCode(AlreadyExistsCode))}
  ELSE LET fs == {op.fams[i] : i \in 1..Len(op.fams)}
           fm == [f \in {x.f : x \in fs} |-> (CHOOSE x \in fs : x.f = f).rule]
           nt == [parent |-> op.parent, fams |-> fm, rows |-> <<>>]
       IN {Out([st EXCEPT !.tables = [x \in (DOMAIN st.tables) \cup {op.t} |-> IF x = op.t THEN nt ELSE st.tables[x]]],
               [ok |-> TRUE, code |-> 0, fams |-> fm])}

GetTable(st, op) ==
  IF ~HasTbl(st, op.t) THEN NotFound(st) ELSE {Out(st, [ok |-> TRUE, code |-> 0, fams |-> Tbl(st, op.t).fams])}

ListTables(st, op) ==
  {Out(st, [ok |-> TRUE, code |-> 0, names |-> {t \in DOMAIN st.tables : st.tables[t].parent = op.parent}])}

\* Consistency tokens (replication is not emulated: one cluster, always consistent). A token is bound to the name
\* of the table it was generated for. op.tokFor is the table name the presented token was generated for, or
\* op.genuine = FALSE for a token the service never issued. Neither request changes anything.
GenerateToken(st, op) ==
  IF ~HasTbl(st, op.t) THEN NotFound(st) ELSE {Out(st, [ok |-> TRUE, code |-> 0, tokFor |-> op.t])}
CheckConsistency(st, op) ==
  IF ~HasTbl(st, op.t) THEN NotFound(st)
  ELSE IF op.genuine /\ op.tokFor = op.t THEN {Out(st, [ok |-> TRUE, code |-> 0, consistent |-> TRUE])}
  ELSE {Out(st, ErrCode(InvalidArgCode))}

DeleteTable(st, op) ==
  IF ~HasTbl(st, op.t) THEN NotFound(st)
  ELSE {Out([st EXCEPT !.tables = [x \in (DOMAIN st.tables) \ {op.t} |-> st.tables[x]]], OkResp)}

\* mods : Seq([k \in {"create","update","drop","none"}, f, rule]); validated against the running schema,
\* applied entirely or not at all
RECURSIVE ModFams(_, _, _)
ModFams(fams, mods, i) ==                   \* result: [ok, fams]
  IF i > Len(mods) THEN [ok |-> TRUE, fams |-> fams]
  ELSE LET m == mods[i] IN
       CASE m.k = "create" -> IF m.f \in DOMAIN fams THEN [ok |-> FALSE]
                              ELSE ModFams([x \in (DOMAIN fams) \cup {m.f} |-> IF x = m.f THEN m.rule ELSE fams[x]], mods, i + 1)
         [] m.k = "update" -> IF m.f \notin DOMAIN fams THEN [ok |-> FALSE]
                              ELSE ModFams([fams EXCEPT ![m.f] = m.rule], mods, i + 1)
         [] m.k = "drop"   -> IF m.f \notin DOMAIN fams THEN [ok |-> FALSE]
                              ELSE ModFams([x \in (DOMAIN fams) \ {m.f} |-> fams[x]], mods, i + 1)
         [] OTHER          -> ModFams(fams, mods, i + 1)       \* a modification with nothing set is ignored

\* rows restricted to the families that still exist (cells of a family dropped at any point of the
\* request are gone even if a later modification re-creates the family)
DroppedIn(mods) == {mods[i].f : i \in {j \in 1..Len(mods) : mods[j].k = "drop"}}
PurgeRows(rows, dead) ==
  LET nr == [k \in DOMAIN rows |-> [c \in {d \in DOMAIN rows[k] : d[1] \notin dead} |-> rows[k][c]]]
  IN  [k \in {x \in DOMAIN nr : nr[x] # NoRow} |-> nr[k]]

ModifyFamilies(st, op) ==
  IF ~HasTbl(st, op.t) THEN NotFound(st)
  ELSE LET r == ModFams(Tbl(st, op.t).fams, op.mods, 1) IN
       IF ~r.ok THEN {Out(st, ErrAny)}
       ELSE {Out([st EXCEPT !.tables[op.t].fams = r.fams,
                            !.tables[op.t].rows = PurgeRows(@, DroppedIn(op.mods))],
                 [ok |-> TRUE, code |-> 0, fams |-> r.fams])}

DropRowRange(st, op) ==        \* op.all BOOLEAN, op.hasPrefix BOOLEAN, op.prefix
  IF ~HasTbl(st, op.t) THEN NotFound(st)
  ELSE IF op.all THEN {Out(WithRows(st, op.t, <<>>), OkResp)}
  ELSE IF ~op.hasPrefix THEN {Out(st, ErrAny)}
  ELSE LET rows == Tbl(st, op.t).rows IN
       {Out(WithRows(st, op.t, [k \in {x \in DOMAIN rows : ~IsPrefixB(op.prefix, x)} |-> rows[k]]), OkResp)}

(****************************** writes (C01 C06 C12 C13) *******************)
MutateRow(st, op) ==
  IF ~HasTbl(st, op.t) THEN NotFound(st)
  ELSE { IF o.ok THEN Out(WithRow(st, op.t, op.k, o.row), OkResp) ELSE Out(st, ErrAny)
         : o \in Apply(RowOf(st, op.t, op.k), FamSet(st, op.t), op.muts, op.now) }

\* entries applied in request order, each atomically, each with its own status
RECURSIVE MutateEntries(_, _, _, _, _)
MutateEntries(st, op, i, cur, stats) ==
  IF i > Len(op.entries) THEN {Out(cur, [ok |-> TRUE, code |-> 0, entries |-> stats])}
  ELSE LET e == op.entries[i] IN
       UNION { MutateEntries(st, op, i + 1,
                             IF o.ok THEN WithRow(cur, op.t, e.k, o.row) ELSE cur, Append(stats, o.ok))
               : o \in Apply(RowOf(cur, op.t, e.k), FamSet(cur, op.t), e.muts, op.now) }

MutateRows(st, op) ==
  IF ~HasTbl(st, op.t) THEN NotFound(st) ELSE MutateEntries(st, op, 1, st, <<>>)

\* the row as the ordered cell list the filters see; famOrder: the families in presentation order
CellList(row, famOrder) ==
  ConcatAll([j \in 1..Len(famOrder) |->
     LET qs == SortBytes({c[2] : c \in {d \in DOMAIN row : d[1] = famOrder[j]}}) IN
     ConcatAll([m \in 1..Len(qs) |->
        LET cs == CanonCells(row[<<famOrder[j], qs[m]>>]) IN
        [n \in 1..Len(cs) |-> [f |-> famOrder[j], q |-> qs[m], ts |-> cs[n].ts, v |-> cs[n].v, lab |-> <<>>]]])])

\* family presentation order: the logged order for the families it mentions, then the rest ascending
FamOrderFor(row, logged) ==
  LET present == FamsOf(row)
      first   == SelectSeq(logged, LAMBDA f : f \in present)
      rest    == SortBytes(present \ {first[i] : i \in 1..Len(first)})
  IN first \o rest

CheckAndMutate(st, op) ==       \* op.hasPred, op.pred, op.tm, op.fm, op.famOrder
  IF ~HasTbl(st, op.t) THEN NotFound(st)
  ELSE LET row == RowOf(st, op.t, op.k)
           evs == IF op.hasPred /\ row # NoRow
                  THEN Eval(op.pred, CellList(row, FamOrderFor(row, op.famOrder)), op.k)
                  ELSE {[err |-> FALSE, cells |-> IF row = NoRow THEN <<>> ELSE <<1>>, amb |-> FALSE]}
           \* an invalid filter somewhere in the predicate that the evaluation does not reach (row absent,
           \* short-circuited chain, branch not taken) may or may not be rejected (DESIGN.md 5.4)
           lax == op.hasPred /\ HasInvalid(op.pred) /\ \A ev \in evs : ~ev.err
       IN (IF lax THEN {Out(st, ErrCode(InvalidArgCode))} ELSE {}) \cup
          UNION { IF ev.err THEN {Out(st, ErrCode(InvalidArgCode))}
                  ELSE UNION {
                       { IF o.ok THEN Out(WithRow(st, op.t, op.k, o.row), [ok |-> TRUE, code |-> 0, matched |-> matched])
                         ELSE Out(st, ErrAny)
                         : o \in { x \in Apply(row, FamSet(st, op.t), IF matched THEN op.tm ELSE op.fm, op.now) :
                                   \* an empty selected list: success, nothing changes
                                   (IF matched THEN op.tm ELSE op.fm) = <<>> => x.ok } }
                       \* a predicate whose outcome the documented semantics do not determine (BtFilter, amb): either branch
                       : matched \in (IF ev.amb THEN BOOLEAN ELSE {ev.cells # <<>>}) }
                  : ev \in evs }

ReadModifyWrite(st, op) ==
  IF ~HasTbl(st, op.t) THEN NotFound(st)
  ELSE { IF o.ok THEN Out(WithRow(st, op.t, op.k, o.row), [ok |-> TRUE, code |-> 0, row |-> o.resp])
         ELSE Out(st, ErrAny)
         : o \in Rmw(RowOf(st, op.t, op.k), FamSet(st, op.t), op.rules, op.now) }

(********************************* reads (C03 C05) *************************)
\* Evaluate the scan: visits rows of the denotation in key order until `limit` rows produced output.
\* Result: set of [err, rows] with rows a sequence of [k, cells]; err = an invalid filter was reached.
\* the logged family presentation order of row k (op.famOrders : Seq([k, fo])), <<>> if none
LoggedOrder(fos, k) ==
  IF \E i \in 1..Len(fos) : fos[i].k = k THEN fos[CHOOSE i \in 1..Len(fos) : fos[i].k = k].fo ELSE <<>>

RECURSIVE Scan(_, _, _, _, _, _, _)
Scan(st, op, keys, i, acc, famOrders, cnt) ==
  IF i > Len(keys) \/ (op.limit > 0 /\ cnt >= op.limit) THEN {[err |-> FALSE, rows |-> acc, amb |-> FALSE]}
  ELSE LET k   == keys[i]
           row == RowOf(st, op.t, k)
           fo  == FamOrderFor(row, LoggedOrder(famOrders, k))
           cl  == CellList(row, fo)
       IN UNION { IF ev.err THEN {[err |-> TRUE, rows |-> acc, amb |-> FALSE]}
                  \* the filter's outcome on this row is not determined (BtFilter, amb): nothing is required of the rows
                  ELSE IF ev.amb THEN {[err |-> FALSE, rows |-> acc, amb |-> TRUE]}
                  ELSE IF ev.cells = <<>> THEN Scan(st, op, keys, i + 1, acc, famOrders, cnt)
                  ELSE Scan(st, op, keys, i + 1, Append(acc, [k |-> k, cells |-> ev.cells]), famOrders, cnt + 1)
                  : ev \in (IF op.hasFilter THEN Eval(op.filter, cl, k) ELSE {[err |-> FALSE, cells |-> cl, amb |-> FALSE]}) }

ReadRows(st, op) ==       \* op.rs, op.limit, op.hasFilter, op.filter, op.famOrders : Seq([k, fo])
  IF ~HasTbl(st, op.t) THEN NotFound(st)
  ELSE IF Invalid(op.rs) THEN {Out(st, ErrCode(InvalidArgCode))}
  ELSE LET keys == SortBytes(Denot(op.rs, DOMAIN Tbl(st, op.t).rows))
           res  == Scan(st, op, keys, 1, <<>>, op.famOrders, 0)
           lax  == op.hasFilter /\ HasInvalid(op.filter) /\ \A r \in res : ~r.err
       IN (IF lax THEN {Out(st, ErrCode(InvalidArgCode))} ELSE {}) \cup
          { IF r.err THEN Out(st, ErrCode(InvalidArgCode)) ELSE Out(st, [ok |-> TRUE, code |-> 0, rows |-> r.rows, amb |-> r.amb])
            : r \in res }

SampleRowKeys(st, op) ==
  IF ~HasTbl(st, op.t) THEN NotFound(st) ELSE {Out(st, [ok |-> TRUE, code |-> 0, sample |-> TRUE])}

(********************************* GC (C16) ********************************)
GcRow(row, fams, now) ==
  LET nr == [c \in DOMAIN row |-> IF HasRule(fams[c[1]]) THEN GcCells(fams[c[1]], row[c], now) ELSE row[c]]
  IN  [c \in {d \in DOMAIN nr : nr[d] # <<>>} |-> nr[c]]

GcPass(st, op) ==         \* a complete pass over table op.t at clock op.now
  IF ~HasTbl(st, op.t) THEN {Out(st, OkResp)}
  ELSE LET rows == Tbl(st, op.t).rows
           fams == Tbl(st, op.t).fams
           nr   == [k \in DOMAIN rows |-> GcRow(rows[k], fams, op.now)]
       IN {Out(WithRows(st, op.t, [k \in {x \in DOMAIN nr : nr[x] # NoRow} |-> nr[k]]), OkResp)}

\* the background collector's own decision: it runs a pass only on a table that has been idle (no read,
\* no write) for the quiescence period; on a table in active use it does nothing
GcAuto(st, op) == IF op.idle THEN GcPass(st, op) ELSE {Out(st, OkResp)}

Step(st, op) ==
  CASE op.ev = "CreateTable"   -> CreateTable(st, op)
    [] op.ev = "GetTable"      -> GetTable(st, op)
    [] op.ev = "ListTables"    -> ListTables(st, op)
    [] op.ev = "DeleteTable"   -> DeleteTable(st, op)
    [] op.ev = "GenerateToken" -> GenerateToken(st, op)
    [] op.ev = "CheckConsistency" -> CheckConsistency(st, op)
    [] op.ev = "ModifyFamilies" -> ModifyFamilies(st, op)
    [] op.ev = "DropRowRange"  -> DropRowRange(st, op)
    [] op.ev = "MutateRow"     -> MutateRow(st, op)
    [] op.ev = "MutateRows"    -> MutateRows(st, op)
    [] op.ev = "CheckAndMutate" -> CheckAndMutate(st, op)
    [] op.ev = "ReadModifyWrite" -> ReadModifyWrite(st, op)
    [] op.ev = "ReadRows"      -> ReadRows(st, op)
    [] op.ev = "SampleRowKeys" -> SampleRowKeys(st, op)
    [] op.ev = "GcPass"        -> GcPass(st, op)
    [] op.ev = "GcAuto"        -> GcAuto(st, op)
    [] OTHER -> {}

(***************************************************************************)
(* State invariants of the design (checked by TLC in every reachable       *)
(* state of the bounded models).                                           *)
(***************************************************************************)
Canonical(st) ==
  \A t \in DOMAIN st.tables :
     \A k \in DOMAIN st.tables[t].rows :
        LET row == st.tables[t].rows[k] IN
        /\ row # NoRow
        /\ \A c \in DOMAIN row : c[1] \in DOMAIN st.tables[t].fams /\ DOMAIN row[c] # {}
        /\ \A c \in DOMAIN row : \A ts \in DOMAIN row[c] : ValidTs(ts)
=============================================================================
