package main

import (
	"math"
	"math/rand"

	"verif/harness/internal/bt"
	"verif/harness/internal/j"
)

// Random program generation for the Bigtable sequential properties. The generator only chooses
// requests; what they must do is decided by the TLA+ specification when the trace is validated.

const maxValidTs = math.MaxInt64 - math.MaxInt64%1000

var (
	btParent = j.S("projects/p/instances/i")
	btTable  = j.S("projects/p/instances/i/tables/t1")
	btTable2 = j.S("projects/p/instances/i/tables/t2")
	genKeys  = []j.B{j.S("a"), j.S("a\x00"), j.S("a\x00\x00"), j.S("ab"), j.S("b"), j.S("\x00"), j.S("\xff")}
	genFams  = []j.B{j.S("f"), j.S("g")}
	genQuals = []j.B{j.S(""), j.S("q"), j.S("q\x00"), j.S("\xff"), j.S("r")}
	genVals  = []j.B{j.S("x"), j.S("y"), j.S(""), j.S("\x00\xff"), {0, 0, 0, 0, 0, 0, 0, 1}, {0xff, 0xff, 0xff, 0xff, 0xff, 0xff, 0xff, 0xff}, j.S("abc")}
	goodTs   = []int64{0, 1000, 2000, 3000, 4000, 5000, maxValidTs, maxValidTs - 1000}
	badTs    = []int64{-1000, -2, 1500, 1, 999, maxValidTs + 1, math.MaxInt64, math.MinInt64}
)

type gen struct{ r *rand.Rand }

func (g gen) pick(n int) int        { return g.r.Intn(n) }
func (g gen) chance(p float64) bool { return g.r.Float64() < p }
func (g gen) key() j.B              { return genKeys[g.pick(len(genKeys))] }
func (g gen) qual() j.B             { return genQuals[g.pick(len(genQuals))] }
func (g gen) val() j.B              { return genVals[g.pick(len(genVals))] }
func (g gen) fam(pUnknown float64) j.B {
	if g.chance(pUnknown) {
		return j.S("u")
	}
	return genFams[g.pick(len(genFams))]
}

func (g gen) ts(pBad, pServer float64) int64 {
	x := g.r.Float64()
	switch {
	case x < pServer:
		return -1
	case x < pServer+pBad:
		return badTs[g.pick(len(badTs))]
	}
	return goodTs[g.pick(len(goodTs))]
}

// mutation; bad controls how likely an invalid one is
func (g gen) mut(bad float64) bt.Mut {
	switch x := g.r.Float64(); {
	case x < 0.55:
		return bt.Mut{M: "set", F: g.fam(bad / 2), Q: g.qual(), Ts: j.N64(g.ts(bad/2, 0.15)), V: g.val()}
	case x < 0.80:
		m := bt.Mut{M: "delcol", F: g.fam(bad / 2), Q: g.qual()}
		if g.chance(0.75) {
			m.R = 1
			m.S = j.N64(g.ts(bad/3, 0))
			if g.chance(0.3) {
				m.E = 0
			} else {
				m.E = j.N64(g.ts(bad/3, 0))
			}
			if g.chance(0.5) && int64(m.E) != 0 && int64(m.E) < int64(m.S) && !g.chance(bad) {
				m.S, m.E = m.E, m.S
			}
		}
		return m
	case x < 0.90:
		return bt.Mut{M: "delfam", F: g.fam(bad / 2)}
	case x < 0.97:
		return bt.Mut{M: "delrow"}
	}
	if g.chance(bad) {
		return bt.Mut{M: "none"}
	}
	return bt.Mut{M: "delrow"}
}

func (g gen) muts(maxN int, bad float64) []bt.Mut {
	n := 1 + g.pick(maxN)
	if g.chance(0.03) {
		n = 0
	}
	out := make([]bt.Mut, 0, n)
	for i := 0; i < n; i++ {
		out = append(out, g.mut(bad))
	}
	return out
}

func createOp(t j.B, rules ...bt.Rule) bt.Op {
	op := bt.Op{Ev: "CreateTable", T: t, Parent: btParent}
	for i, f := range genFams {
		r := bt.Rule{T: "none"}
		if i < len(rules) {
			r = rules[i]
		}
		op.Fams = append(op.Fams, bt.FamDef{F: f, Rule: r})
	}
	return op
}

// genMutationProgram: C01 - mutation requests with a scripted clock (advancing or stalled).
func genMutationProgram(r *rand.Rand, n int) []bt.Op {
	g := gen{r}
	prog := []bt.Op{createOp(btTable)}
	clock := int64(3000 + 1000*g.pick(4))
	stalled := g.chance(0.3)
	subMs := g.chance(0.5)
	for len(prog) < n {
		if !stalled {
			clock += int64(g.pick(3)) * 1000
		}
		now := clock
		if subMs {
			now += int64(g.pick(1000))
		}
		bad := 0.25
		switch x := g.r.Float64(); {
		case x < 0.62:
			prog = append(prog, bt.Op{Ev: "MutateRow", T: btTable, K: g.key(), Muts: g.muts(4, bad), Now: j.N64(now)})
		case x < 0.92:
			op := bt.Op{Ev: "MutateRows", T: btTable, Now: j.N64(now)}
			ne := 1 + g.pick(3)
			for i := 0; i < ne; i++ {
				k := g.key()
				if i > 0 && g.chance(0.4) {
					k = op.Entries[0].K
				}
				op.Entries = append(op.Entries, bt.Entry{K: k, Muts: g.muts(3, bad)})
			}
			prog = append(prog, op)
		case x < 0.96:
			prog = append(prog, bt.Op{Ev: "ReadRows", T: btTable, Rs: bt.RowSet{Keys: []j.B{g.key()}}})
		default:
			prog = append(prog, bt.Op{Ev: "MutateRow", T: j.S("projects/p/instances/i/tables/missing"), K: g.key(), Muts: g.muts(2, 0), Now: j.N64(now)})
		}
	}
	return prog
}
