---------------------------- MODULE MC_LockMapSched -------------------------
(***************************************************************************)
(* LockMap with a history variable recording which process took which      *)
(* step: the behaviours TLC generates (all of them for the small           *)
(* configuration, simulated ones for the large one) are printed as         *)
(* schedules that the harness executes on the real lock map through its    *)
(* gate scheduler.                                                         *)
(***************************************************************************)
EXTENDS LockMap, Sequences, Json

CONSTANTS p1, p2, p3, k1, k2, MaxLen
VARIABLE sched
svars == <<vars, sched>>

Log(r) == sched' = Append(sched, r)
SInit == Init /\ sched = <<>>
SNext == \E p \in Procs :
           \/ \E k \in Keys : CallLock(p, k) /\ Log([p |-> p, a |-> "lock", k |-> k])
           \/ \E k \in Keys : CallBadUnlock(p, k) /\ Log([p |-> p, a |-> "badunlock", k |-> k])
           \/ CallUnlock(p) /\ Log([p |-> p, a |-> "unlock", k |-> key[p]])
           \/ (LockEnter(p) \/ LockLeave(p) \/ LockCheckCtx(p) \/ LockAcquire(p) \/ LockGiveUp(p) \/ RetEnter(p) \/ RetLeave(p)
                \/ UnlEnter(p) \/ UnlLeave(p) \/ UnlRecv(p)) /\ Log([p |-> p, a |-> "step", k |-> key[p]])
           \/ Cancel(p) /\ Log([p |-> p, a |-> "cancel", k |-> key[p]])
SSpec == SInit /\ [][SNext]_svars

Quiet == \A p \in Procs : pc[p] = "idle" /\ ~holds[p] /\ round[p] = Rounds
\* print complete behaviours (and cut ones at MaxLen)
Constr == /\ Len(sched) <= MaxLen
          /\ (Quiet \/ Len(sched) = MaxLen) => PrintT(<<"SCHED", ToJson(sched)>>)
=============================================================================
