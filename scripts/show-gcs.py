#!/usr/bin/env python3
import json,sys
def conv(x,key=None):
    if isinstance(x,list):
        if x and all(isinstance(i,int) and 0<=i<256 for i in x): return bytes(x).decode('latin1')
        if x==[] and key in ('b','n','content','md5','prefix','delim','data','md5full','db','dn','v','k','body','hctype','ct','cc','cd','ce','cl'): return ''
        return [conv(i,key) for i in x]
    if isinstance(x,dict): return {k:conv(v,k) for k,v in x.items() if v is not None}
    return x
d=json.load(open(sys.argv[1])); c=d['case']; print(d['what'])
fs=c['failing_step']
for i,op in enumerate(c['program']):
    if len(sys.argv)>2 or fs-6<=i+1<=fs: print(' step',i+1,json.dumps(conv(op),ensure_ascii=False)[:400])
ev=c.get('observed_event')
if ev:
    r=conv(ev['resp']); print(' RESP',json.dumps({k:v for k,v in r.items() if v not in ([],'',0,False)},ensure_ascii=False)[:1500])
    if 'buckets' in ev['obs']:
        for b in ev['obs']['buckets']:
            print(' OBS bucket',conv(b['b']),'exists',b['exists'],'listed',conv(b['listed']))
            for o in b['objs']:
                if o['present']: print('    ',json.dumps(conv(o),ensure_ascii=False)[:300])
    else: print(' OBS same')
