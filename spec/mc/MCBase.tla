------------------------------- MODULE MCBase -------------------------------
(***************************************************************************)
(* Shared scaffolding of the bounded Bigtable models: the model state st   *)
(* of BtData, the request history path that led to it (hidden from the     *)
(* VIEW, so each distinct st is explored once and path is its BFS          *)
(* history), and last = what the last request did.                         *)
(* With DumpEdges, every generated transition prints its request history   *)
(* as JSON; the harness replays these on the real emulator.                *)
(***************************************************************************)
EXTENDS BtData, Json, TLC

CONSTANTS DumpEdges,     \* TRUE: print the request history of generated transitions
          SampleK        \* print one transition in SampleK (1 = all)

VARIABLES st, path, last
vars == <<st, path, last>>

Do(op) == \E o \in Step(st, op) :
            /\ st' = o.st
            /\ path' = Append(path, op)
            /\ last' = [op |-> op, resp |-> o.resp, changed |-> o.st # st]

\* initial state: the result of running the given setup requests
RECURSIVE RunAll(_, _)
RunAll(s, ops) == IF ops = <<>> THEN s ELSE RunAll((CHOOSE o \in Step(s, Head(ops)) : o.resp.ok).st, Tail(ops))
InitWith(ops) == st = RunAll(InitSt, ops) /\ path = ops /\ last = [op |-> [ev |-> "none"], resp |-> OkResp, changed |-> FALSE]

Dump == (DumpEdges /\ last.op.ev # "none" /\ RandomElement(1..SampleK) = 1) => PrintT(<<"PATH", ToJson(path)>>)
View == st

TotalCells(s) ==
  LET ts == DOMAIN s.tables IN
  Cardinality(UNION {UNION {UNION {{<<t, k, c, x>> : x \in DOMAIN s.tables[t].rows[k][c]} : c \in DOMAIN s.tables[t].rows[k]}
                            : k \in DOMAIN s.tables[t].rows} : t \in ts})

InvCanonical == Canonical(st)
\* a failed request changes nothing
FailedIsNoop == [][(~last'.resp.ok) => st' = st]_vars
=============================================================================
