----------------------------- MODULE LockMapInd -----------------------------
(***************************************************************************)
(* An inductive invariant for LockMap, discharged by Apalache for 3        *)
(* goroutines and 2 keys with an UNBOUNDED number of rounds, cancellation  *)
(* and rogue unlocks (scripts/lockmap-inductive.sh):                       *)
(*     IndInit => IndInv          (length 0)                               *)
(*     IndInv /\ Next => IndInv'  (length 1, from IndInit == IndInv)       *)
(* IndInv implies every safety property TLC checks on the bounded model    *)
(* (Mutex, RefCount, FalseOnlyIfCancelled, PanicOnlyIfNotHeld, NoLeak,     *)
(* MuShort), so those hold in every reachable state for any number of      *)
(* calls.                                                                  *)
(***************************************************************************)
EXTENDS LockMap

ConstInit == /\ Procs = {"p1", "p2", "p3"} /\ Keys = {"k1", "k2"}
             /\ Rounds = 1000000000 /\ CanCancel = TRUE /\ BadUnlock = TRUE

LivePCs == {"idle", "lk_start", "lk_inMu", "lk_ctx", "lk_select", "ret_start", "ret_inMu", "ul_start", "ul_inMu", "ul_recv"}
Results == {"none", "true", "false", "unlocking", "unlocked", "panic"}

TypeInd == /\ mu \in Procs \cup {"free"}
           /\ inMap \in [Keys -> BOOLEAN] /\ full \in [Keys -> BOOLEAN]
           /\ ref \in [Keys -> 0..3]
           /\ pc \in [Procs -> LivePCs] /\ key \in [Procs -> Keys]
           /\ cancelled \in [Procs -> BOOLEAN] /\ holds \in [Procs -> BOOLEAN]
           /\ round \in [Procs -> Nat] /\ result \in [Procs -> Results]

InMu(p) == pc[p] \in {"lk_inMu", "ret_inMu", "ul_inMu"}
Rogue(p) == pc[p] \in {"ul_start", "ul_inMu", "ul_recv"} /\ ~holds[p]

Aux == /\ \A p \in Procs : (mu = p) <=> InMu(p)                       \* the mutex is held exactly inside the three short sections
       /\ \A p \in Procs : holds[p] => pc[p] \in {"idle", "ul_start", "ul_inMu", "ul_recv"}
       \* inside returnLockObj: either on the way out of an Unlock that released, or giving up a cancelled Lock
       /\ \A p \in Procs : pc[p] \in {"ret_start", "ret_inMu"} =>
              (result[p] = "unlocking" \/ (result[p] = "none" /\ cancelled[p]))
       /\ \A p \in Procs : result[p] = "unlocking" => pc[p] \in {"ret_start", "ret_inMu"}
       /\ \A p \in Procs : pc[p] \in {"lk_start", "lk_inMu", "lk_ctx", "lk_select", "ul_start", "ul_inMu", "ul_recv"} => result[p] = "none"
       \* while a rogue unlock of k is in flight nobody holds k
       /\ \A p \in Procs : Rogue(p) => ~full[key[p]]
       /\ \A p \in Procs : pc[p] \in {"ul_inMu"} => inMap[key[p]]

IndInv == TypeInd /\ Aux /\ Mutex /\ RefCount /\ FalseOnlyIfCancelled /\ PanicOnlyIfNotHeld /\ MuShort
IndInit == IndInv

\* what the inductive invariant is for
Safety == Mutex /\ RefCount /\ FalseOnlyIfCancelled /\ PanicOnlyIfNotHeld /\ NoLeak /\ MuShort
=============================================================================
