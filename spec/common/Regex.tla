------------------------------- MODULE Regex -------------------------------
(***************************************************************************)
(* Regular expressions over bytes as an abstract syntax tree, with a       *)
(* whole-string matcher.  The harness renders the same tree to RE2 text    *)
(* for the emulator.  Nodes (records, field k is the kind):                *)
(*   lit b | any (\C: any byte) | dot (any byte but 10) | class set (a sequence of bytes) neg    *)
(*   cat xs | alt xs | star x | plus x | opt x | bad (does not compile)    *)
(***************************************************************************)
EXTENDS Naturals, Sequences, FiniteSets

RECURSIVE ReBad(_)
ReBad(re) ==
  CASE re.k = "bad" -> TRUE
    [] re.k \in {"cat", "alt"} -> \E i \in 1..Len(re.xs) : ReBad(re.xs[i])
    [] re.k \in {"star", "plus", "opt"} -> ReBad(re.x)
    [] OTHER -> FALSE

\* Ends(re, s, i): the set of j >= i such that re matches s[i .. j-1]
RECURSIVE Ends(_, _, _), CatEnds(_, _, _, _), StarEnds(_, _, _)
Ends(re, s, i) ==
  CASE re.k = "lit"   -> IF i <= Len(s) /\ s[i] = re.b THEN {i + 1} ELSE {}
    [] re.k = "any"   -> IF i <= Len(s) THEN {i + 1} ELSE {}
    [] re.k = "dot"   -> IF i <= Len(s) /\ s[i] # 10 THEN {i + 1} ELSE {}
    [] re.k = "class" -> IF i <= Len(s) /\ ((\E n \in 1..Len(re.set) : re.set[n] = s[i]) # re.neg) THEN {i + 1} ELSE {}
    [] re.k = "cat"   -> CatEnds(re.xs, s, {i}, 1)
    [] re.k = "alt"   -> UNION {Ends(re.xs[n], s, i) : n \in 1..Len(re.xs)}
    [] re.k = "star"  -> StarEnds(re.x, s, {i})
    [] re.k = "plus"  -> StarEnds(re.x, s, Ends(re.x, s, i))
    [] re.k = "opt"   -> {i} \cup Ends(re.x, s, i)
    [] OTHER          -> {}
CatEnds(xs, s, S, n) ==
  IF n > Len(xs) THEN S ELSE CatEnds(xs, s, UNION {Ends(xs[n], s, p) : p \in S}, n + 1)
StarEnds(x, s, S) ==
  LET N == S \cup UNION {Ends(x, s, p) : p \in S} IN IF N = S THEN S ELSE StarEnds(x, s, N)

\* whole-field match (the emulator anchors every pattern: ^(?:re)$)
Matches(re, s) == (Len(s) + 1) \in Ends(re, s, 1)
=============================================================================
