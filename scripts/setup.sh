#!/bin/bash
# Offline build of the framework + parse of every TLA+ module.
cd /verif || exit 1
export GOFLAGS=-mod=mod GOPROXY=off GOTOOLCHAIN=local
mkdir -p bin evidence
(cd harness && go build -tags verif -o /verif/bin/verif ./cmd/verif \
  && go build -tags verif -o /verif/bin/cbtemulator github.com/fullstorydev/emulators/bigtable/cmd/cbtemulator \
  && go build -tags verif -o /verif/bin/gcsemulator github.com/fullstorydev/emulators/storage/cmd/gcsemulator) || exit 1
scripts/sany-all.sh || exit 1
echo setup-ok
