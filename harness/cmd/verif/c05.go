package main

import (
	"encoding/json"
	"math/rand"
	"time"

	"verif/harness/internal/bt"
	"verif/harness/internal/j"
)

func init() {
	checks["C05"] = checkC05
	checks["C03"] = checkC03
}

var readOnly = map[string]bool{"ReadRows": true, "SampleRowKeys": true, "GetTable": true, "ListTables": true}

// groupReads merges histories that share the same prefix and end in a read-only request into programs
// "prefix + up to max reads" (the state does not change, so each read is still a transition from that state).
func groupReads(paths [][]bt.Op, max int) [][]bt.Op {
	var out [][]bt.Op
	idx := map[string]int{}
	for _, p := range paths {
		if len(p) == 0 {
			continue
		}
		last := p[len(p)-1]
		if !readOnly[last.Ev] {
			out = append(out, p)
			continue
		}
		key := describe(p[:len(p)-1])
		if i, ok := idx[key]; ok && len(out[i])-(len(p)-1) < max {
			out[i] = append(out[i], last)
			continue
		}
		idx[key] = len(out)
		out = append(out, append([]bt.Op{}, p...))
	}
	return out
}

// random table + filtered reads with trees to the given depth
func genFilterProgram(depth int) func(r *rand.Rand) []bt.Op { return genFilterProgramS(depth, 0.05) }

func genFilterProgramS(depth int, pSample float64) func(r *rand.Rand) []bt.Op {
	return func(r *rand.Rand) []bt.Op {
		g := gen{r}
		prog := []bt.Op{createOp(btTable)}
		prog = append(prog, g.populate(btTable, 3+g.pick(3), 9000)...)
		n := len(prog) + 12 + g.pick(14)
		for len(prog) < n {
			f := g.filter(depth, 0.08)
			if g.chance(pSample) {
				f = bt.Filter{K: "chain", Fs: []bt.Filter{{K: "sample", Pn: 50}, f}}
			}
			op := bt.Op{Ev: "ReadRows", T: btTable, HasFilter: true, Filter: &f}
			if g.chance(0.3) {
				op.Limit = 1 + g.pick(3)
			}
			if g.chance(0.3) {
				op.Rs = bt.RowSet{Keys: []j.B{g.key(), g.key()}}
			}
			prog = append(prog, op)
			if g.chance(0.1) {
				prog = append(prog, bt.Op{Ev: "MutateRow", T: btTable, K: g.key(), Muts: g.muts(3, 0), Now: 9000})
			}
		}
		return prog
	}
}

// C05 Bigtable: row filters compute the documented filter semantics.
func checkC05(c *Ctx) {
	c.rule = "cases = ReadRows requests with a filter on a known table: every leaf filter of a 34-filter boundary basis and all depth-2 compositions (chain/interleave pairs, conditions) enumerated by TLC from MC_BtFilter, and seeded random filter trees to depth 3 (thorough: 4) over random tables with binary qualifiers/values; executed on the real emulator on every engine; status and decoded rows validated by TLC against BtFilter.Eval; distinct = distinct (table history, filter, limit) text; non-trivial = every case (each evaluates a filter on stored rows)"
	r := rand.New(rand.NewSource(c.Seed))
	mc := cfg{Spec: "Spec", Constants: map[string]string{"Depth2": "TRUE", "DumpEdges": "FALSE", "SampleK": "1"}, Constraint: "Constr", View: "View",
		Invariants: []string{"InvCanonical", "InvLaws"}, Properties: []string{"ReadLaw"}}
	c.runModel("MC_BtFilter", mc, 8, 20*time.Minute, true)
	sk := "4"
	if !c.Quick() {
		sk = "1"
	}
	dump := cfg{Spec: "Spec", Constants: map[string]string{"Depth2": "TRUE", "DumpEdges": "TRUE", "SampleK": sk}, Constraint: "Constr", View: "View"}
	paths := c.dumpPaths("MC_BtFilter", dump, 20*time.Minute, 4)
	concretise(paths)
	c.Extra("tlc_transitions_replayed", len(paths))
	for _, p := range paths {
		c.AddEval(1)
		c.Nontrivial(describe(p[len(p)-1:]))
	}
	if len(paths) > 0 {
		c.Sample(map[string]interface{}{"source": "TLC transition (MC_BtFilter): the read", "request": stripProg(paths[len(paths)/3][len(paths[0])-1:])})
	}
	progs := groupReads(paths, 40)
	nT, depth := 120, 3
	if !c.Quick() {
		nT, depth = 9000, 4
	}
	g := genFilterProgram(depth)
	for i := 0; i < nT; i++ {
		p := g(r)
		progs = append(progs, p)
		for _, op := range p {
			if op.Ev == "ReadRows" {
				c.AddEval(1)
				c.Nontrivial(describe([]bt.Op{op}))
			}
		}
		if i == 0 {
			c.Sample(map[string]interface{}{"source": "random filter tree", "request": stripProg(p[len(p)-1:])})
		}
	}
	c.exhaustive = !c.Quick()
	c.Extra("exhaustive_scope", "leaf basis and its depth-2 compositions (MC_BtFilter) in the thorough tier; random trees are sampled")
	engines := allEngines
	c.Extra("engines", engines)
	c.btValidate("C05", engines, progs, nil)
	c.Assume("regex fidelity: the specification evaluates a regex syntax tree that the harness renders to RE2 text; the RE2 engine itself on arbitrary pattern text is not decided")
	c.Assume("TLC, the Json community module and the harness's request encoder / chunk decoder are trusted")
}

// ---- C03 ----

var advKeys = []j.B{j.S("a"), j.S("a\x00"), j.S("a\x00\x00"), j.S("ab"), j.S("b"), j.S("\x00"), j.S("\xff")}

func populateKeys(keys []j.B) bt.Op {
	op := bt.Op{Ev: "MutateRows", T: btTable, Now: 5000}
	for i, k := range keys {
		ms := []bt.Mut{{M: "set", F: j.S("f"), Q: j.S("q"), Ts: 1000, V: j.S("x")}}
		if i%2 == 0 {
			ms = append(ms, bt.Mut{M: "set", F: j.S("g"), Q: j.S(""), Ts: 2000, V: j.S("y")})
		}
		op.Entries = append(op.Entries, bt.Entry{K: k, Muts: ms})
	}
	return op
}

func (g gen) rowRange() bt.Range {
	kinds := []string{"none", "open", "closed"}
	r := bt.Range{Sk: kinds[g.pick(3)], Ek: kinds[g.pick(3)]}
	if r.Sk != "none" {
		r.S = advKeys[g.pick(len(advKeys))]
	}
	if r.Ek != "none" {
		r.E = advKeys[g.pick(len(advKeys))]
	}
	// one in four bounded ranges ends at a key that extends its start key by one byte (a..ab, a..a\x00, a\x00..a\x00\x00):
	// where "the key itself" and "the keys behind it" are easiest to confuse
	if r.Sk != "none" && r.Ek != "none" && g.chance(0.25) {
		pair := [][2]j.B{{j.S("a"), j.S("ab")}, {j.S("a"), j.S("a\x00")}, {j.S("a\x00"), j.S("a\x00\x00")}}[g.pick(3)]
		r.S, r.E = pair[0], pair[1]
	}
	return r
}

// C03 Bigtable: ReadRows returns exactly the requested rows, once, in key order.
func checkC03(c *Ctx) {
	c.rule = "cases = ReadRows requests with a RowSet (and limit, sometimes a filter) on tables holding the adversarial keys or subsets: RowSets enumerated by TLC from MC_BtRowSet (every set of <= 2 ranges + <= 1 key, each bound unset/open/closed over 7 adversarial keys; sampled in the quick tier), seeded random RowSets with up to 3 ranges and 2 keys, multi-message scans with the raw chunk stream logged, and SampleRowKeys on tables of 0, 1 and 300 rows; executed on the real emulator on every engine; status, rows, chunk stream and samples validated by TLC against BtRowSet/ChunkSM; distinct = distinct (stored keys, RowSet, limit, filter) text; non-trivial = every case"
	r := rand.New(rand.NewSource(c.Seed))
	g := gen{r}
	maxR := "2"
	sk := "150"
	if !c.Quick() {
		sk = "1"
	}
	// one TLC run: the refinement invariant over every RowSet, and (sampled) the RowSets to send to the emulator
	mc := cfg{Spec: "Spec", Constants: map[string]string{"MaxRanges": maxR, "DumpEdges": "TRUE", "SampleK": sk}, Constraint: "Constr", Invariants: []string{"InvPlan", "InvInvalid"}}
	res := c.runModel("MC_BtRowSet", mc, 14, 30*time.Minute, false)
	var rowsets []bt.RowSet
	if res != nil {
		for _, p := range res.Tag("RS") {
			var rs bt.RowSet
			if json.Unmarshal(p[0], &rs) == nil {
				rowsets = append(rowsets, rs)
			}
		}
	}
	c.Extra("tlc_rowsets_replayed", len(rowsets))
	nTlc := len(rowsets)
	// random wider RowSets
	nRand := 600
	if !c.Quick() {
		nRand = 20000
	}
	for i := 0; i < nRand; i++ {
		var rs bt.RowSet
		for n := g.pick(3); n > 0; n-- {
			rs.Keys = append(rs.Keys, advKeys[g.pick(len(advKeys))])
		}
		for n := g.pick(4); n > 0; n-- {
			rs.Ranges = append(rs.Ranges, g.rowRange())
		}
		rowsets = append(rowsets, rs)
	}
	stored := [][]j.B{advKeys, {advKeys[0], advKeys[2], advKeys[4]}, {advKeys[1], advKeys[6]}, {}}
	emptying := []*bt.Filter{nil, nil, nil, {K: "famre", Re: &bt.Re{K: "lit", B: 'g'}}, {K: "rowoffset", N: 1}, {K: "chain", Fs: []bt.Filter{{K: "qualre", Re: &bt.Re{K: "lit", B: 'q'}}, {K: "collimit", N: 1}}}}
	var progs [][]bt.Op
	var cur []bt.Op
	flush := func() {
		if len(cur) > 2 {
			progs = append(progs, cur)
		}
		cur = nil
	}
	for i, rs := range rowsets {
		if cur == nil {
			st := stored[0]
			// (thorough tier: every RowSet of the model's universe runs against the full adversarial key set)
			if g.chance(0.35) && (c.Quick() || i >= nTlc) {
				st = stored[1+g.pick(3)]
			}
			cur = []bt.Op{createOp(btTable)}
			if len(st) > 0 {
				cur = append(cur, populateKeys(st))
			}
		}
		op := bt.Op{Ev: "ReadRows", T: btTable, Rs: rs, Limit: []int{0, 0, 1, 2, 3}[g.pick(5)]}
		if f := emptying[g.pick(len(emptying))]; f != nil {
			ff := *f
			op.HasFilter, op.Filter = true, &ff
		}
		if g.chance(0.1) {
			op.WantChunks = true
		}
		c.AddEval(1)
		c.Nontrivial(describe(cur[:min(2, len(cur))]) + describe([]bt.Op{op}))
		if i == 1 || i == len(rowsets)-1 {
			c.Sample(map[string]interface{}{"source": "RowSet case", "request": stripProg([]bt.Op{op})})
		}
		cur = append(cur, op)
		if len(cur) >= 42 {
			flush()
		}
	}
	flush()
	// multi-message scans: > 1024 chunks per scan, raw chunk stream checked for well-formedness
	nBig := 2
	if !c.Quick() {
		nBig = 12
	}
	for b := 0; b < nBig; b++ {
		p := []bt.Op{createOp(btTable)}
		op := bt.Op{Ev: "MutateRows", T: btTable, Now: 5000}
		bigKeys := advKeys[:3+g.pick(4)]
		if b%2 == 0 {
			bigKeys = advKeys[:5+g.pick(3)] // enough rows for a message boundary to fall before a late limit
		}
		for _, k := range bigKeys {
			var ms []bt.Mut
			nc := 150 + g.pick(300)
			if b%2 == 0 {
				nc = 350 + g.pick(100)
			}
			for i := 0; i < nc; i++ {
				ms = append(ms, bt.Mut{M: "set", F: genFams[i%2], Q: j.S(string(rune('a' + i%5))), Ts: j.N64(int64(i/10) * 1000), V: j.B{byte(i), byte(i >> 8)}})
			}
			op.Entries = append(op.Entries, bt.Entry{K: k, Muts: ms})
		}
		p = append(p, op)
		p = append(p, bt.Op{Ev: "ReadRows", T: btTable, WantChunks: true})
		p = append(p, bt.Op{Ev: "ReadRows", T: btTable, WantChunks: true, Rs: bt.RowSet{Ranges: []bt.Range{{Sk: "open", S: advKeys[0], Ek: "none"}}}, Limit: 2})
		// a limit that is only reached after the first response message has been sent
		p = append(p, bt.Op{Ev: "ReadRows", T: btTable, Limit: len(bigKeys) - 1})
		p = append(p, bt.Op{Ev: "SampleRowKeys", T: btTable})
		progs = append(progs, p)
		c.AddEval(3)
		c.Nontrivial(describe(p))
	}
	// SampleRowKeys on 0, 1 and 300 rows (the 1 % sampling fires on the large one)
	for _, n := range []int{0, 1, 300} {
		p := []bt.Op{createOp(btTable), {Ev: "SampleRowKeys", T: btTable}}
		if n > 0 {
			op := bt.Op{Ev: "MutateRows", T: btTable, Now: 5000}
			for i := 0; i < n; i++ {
				op.Entries = append(op.Entries, bt.Entry{K: j.B{byte('k'), byte(i >> 8), byte(i)}, Muts: []bt.Mut{{M: "set", F: j.S("f"), Q: j.S("q"), Ts: 1000, V: j.S("0123456789")}}})
			}
			p = append(p, op, bt.Op{Ev: "SampleRowKeys", T: btTable}, bt.Op{Ev: "SampleRowKeys", T: btTable},
				bt.Op{Ev: "DropRowRange", T: btTable, HasPrefix: true, Prefix: j.B{'k', 0}}, bt.Op{Ev: "SampleRowKeys", T: btTable})
		}
		progs = append(progs, p)
		c.AddEval(1)
		c.Nontrivial(describe(p))
	}
	c.exhaustive = !c.Quick()
	c.Extra("exhaustive_scope", "the model's refinement statement is checked for every RowSet of the universe (406 808 RowSets x 3 stored-key sets) in both tiers; on the real emulator the thorough tier executes every one of the 406 808 RowSets (on the full adversarial key set, every engine; limit and row-emptying filter drawn at random), the quick tier a seeded sample; random wider RowSets, multi-message scans and SampleRowKeys cases are sampled")
	c.Extra("engines", allEngines)
	c.btValidate("C03", allEngines, progs, nil)
	c.Assume("TLC, the Json community module and the harness's request encoder / chunk decoder are trusted (the raw chunk stream is additionally decoded and checked by the ChunkSM specification on a sample of the reads)")
}

// genRowSetProgram: a table holding the adversarial keys (or most of them) read through random RowSets of up to three
// ranges and two keys (used by C17: the engines must agree on range scans, including ranges that end one byte
// behind their start)
func genRowSetProgram(r *rand.Rand) []bt.Op {
	g := gen{r}
	keys := append([]j.B{}, advKeys...)
	r.Shuffle(len(keys), func(a, b int) { keys[a], keys[b] = keys[b], keys[a] })
	keys = keys[:4+g.pick(4)]
	prog := []bt.Op{createOp(btTable), populateKeys(keys)}
	for i := 0; i < 14; i++ {
		var rs bt.RowSet
		for n := g.pick(4); n > 0; n-- {
			rs.Ranges = append(rs.Ranges, g.rowRange())
		}
		for n := g.pick(3); n > 0; n-- {
			rs.Keys = append(rs.Keys, advKeys[g.pick(len(advKeys))])
		}
		prog = append(prog, bt.Op{Ev: "ReadRows", T: btTable, Rs: rs, Limit: []int{0, 0, 0, 1, 2}[g.pick(5)]})
	}
	return prog
}
