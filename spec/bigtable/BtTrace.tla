------------------------------- MODULE BtTrace ------------------------------
(***************************************************************************)
(* Trace specification: checks that executions RECORDED FROM THE REAL      *)
(* EMULATOR (trace.ndjson, one event per request: the request, the reply   *)
(* and a full read-back of every table) are behaviours of BtData.          *)
(*                                                                         *)
(* Many traces are concatenated; a "Reset" event starts a new one from     *)
(* the initial state.  A step the specification cannot explain is printed  *)
(* as a REJECT line; the rest of that trace is skipped (dead) unless only the reply was wrong.          *)
(***************************************************************************)
EXTENDS BtData, ChunkSM, Json, TLC

Trace == ndJsonDeserialize("trace.ndjson")

VARIABLES st, l, dead, nrej
vars == <<st, l, dead, nrej>>

(* ---- reply and read-back acceptance ---- *)
FamsOK(got, fams) ==          \* got : Seq([f, rule])
  /\ Len(got) = Cardinality({got[i].f : i \in 1..Len(got)})
  /\ {got[i].f : i \in 1..Len(got)} = DOMAIN fams
  /\ \A i \in 1..Len(got) : got[i].rule = fams[got[i].f]

RowsOK(got, exp) ==           \* got : Seq([k, cols]), exp : Seq([k, cells]) as produced by Scan
  /\ Len(got) = Len(exp)
  /\ \A i \in 1..Len(got) :
       /\ got[i].k = exp[i].k
       /\ FamiliesOnce(got[i].cols)
       /\ LET flat == ConcatAll([j \in 1..Len(got[i].cols) |->
                         [n \in 1..Len(got[i].cols[j].cells) |->
                            [f |-> got[i].cols[j].f, q |-> got[i].cols[j].q, ts |-> got[i].cols[j].cells[n].ts,
                             v |-> got[i].cols[j].cells[n].v, lab |-> got[i].cols[j].cells[n].lab]]])
          IN SameUpToTies(FamSorted(flat), FamSorted(exp[i].cells))
       \* no empty column is ever presented
       /\ \A j \in 1..Len(got[i].cols) : Len(got[i].cols[j].cells) > 0

RespOK(e, exp) ==
  LET got == e.resp IN
  /\ (got.code = 0) = exp.ok
  /\ exp.code >= 0 => got.code = exp.code
  /\ exp.ok =>
       CASE e.ev \in {"CreateTable", "GetTable", "ModifyFamilies"} -> FamsOK(got.fams, exp.fams)
         [] e.ev = "ListTables" -> /\ Len(got.names) = Cardinality({got.names[i] : i \in 1..Len(got.names)})
                                   /\ {got.names[i] : i \in 1..Len(got.names)} = exp.names
         \* the token is one the service issues for this table and for no other (the harness reports for which
         \* table name it has seen that very string issued)
         [] e.ev = "GenerateToken" -> got.tokFor = exp.tokFor
         [] e.ev = "CheckConsistency" -> got.consistent = exp.consistent
         [] e.ev = "MutateRows" -> /\ Len(got.entries) = Len(exp.entries)
                                   /\ \A i \in 1..Len(got.entries) : (got.entries[i] = 0) = exp.entries[i]
         [] e.ev = "CheckAndMutate" -> got.matched = exp.matched
         [] e.ev = "ReadModifyWrite" -> ObsRowOK(got.row, exp.row)
         [] e.ev = "ReadRows" -> /\ exp.amb \/ RowsOK(got.rows, exp.rows)
                                 \* when the raw chunk stream was logged: it is well formed and decodes to the same rows
                                 /\ Len(got.chunks) > 0 =>
                                      /\ WellFormed(got.chunks)
                                      /\ LET d == Decode(got.chunks) IN
                                         /\ Len(d) = Len(got.rows)
                                         /\ \A i \in 1..Len(d) :
                                              /\ d[i].k = got.rows[i].k
                                              /\ Len(d[i].cols) = Len(got.rows[i].cols)
                                              /\ \A n \in 1..Len(d[i].cols) :
                                                   /\ d[i].cols[n].f = got.rows[i].cols[n].f
                                                   /\ d[i].cols[n].q = got.rows[i].cols[n].q
                                                   /\ d[i].cols[n].cells = StripCells(got.rows[i].cols[n].cells)
         [] e.ev = "SampleRowKeys" -> SampleOK(got.samp, DOMAIN st.tables[e.t].rows)
         [] OTHER -> TRUE

ObsTableOK(x, tb) ==
  /\ x.parent = tb.parent
  /\ FamsOK(x.fams, tb.fams)
  /\ [i \in 1..Len(x.rows) |-> x.rows[i].k] = SortBytes(DOMAIN tb.rows)
  /\ \A i \in 1..Len(x.rows) : ObsRowOK(x.rows[i].cols, tb.rows[x.rows[i].k])
  /\ SampleOK(x.samp, DOMAIN tb.rows)

ObsOK(obs, s) ==
  /\ Len(obs.tables) = Cardinality(DOMAIN s.tables)
  /\ {obs.tables[i].t : i \in 1..Len(obs.tables)} = DOMAIN s.tables
  /\ \A i \in 1..Len(obs.tables) : ObsTableOK(obs.tables[i], s.tables[obs.tables[i].t])

\* {"same": true}: the read-back is, key samples aside, byte-for-byte the previous one of this trace (accepted for st),
\* so it is a presentation of out.st exactly when out.st = st
\* {"skip": true}: no read-back was taken after this request (requests on different tables issued concurrently, logged
\* in the order of their replies): the state they produce is checked at the next event that carries a read-back
StateOK(e, out) == IF "skip" \in DOMAIN e.obs THEN TRUE
                   ELSE IF "same" \in DOMAIN e.obs
                   THEN /\ out.st = st
                        /\ \A i \in 1..Len(e.obs.samps) : SampleOK(e.obs.samps[i].samp, DOMAIN st.tables[e.obs.samps[i].t].rows)
                   ELSE ObsOK(e.obs, out.st)
Explains(e, out) == RespOK(e, out.resp) /\ StateOK(e, out)

Init == st = InitSt /\ l = 1 /\ dead = FALSE /\ nrej = 0

Reject(e, why) == PrintT(<<"REJECT", ToJson([tr |-> e.tr, i |-> e.i, ev |-> e.ev, why |-> why])>>)

Next ==
  /\ l <= Len(Trace)
  /\ l' = l + 1
  /\ LET e == Trace[l] IN
     IF e.ev = "Reset" THEN st' = InitSt /\ dead' = FALSE /\ UNCHANGED nrej
     ELSE IF dead THEN UNCHANGED <<st, dead, nrej>>
     ELSE IF e.ev = "Crash" THEN
          \* C08: the emulator was stopped (cleanly or by a kill, possibly in the middle of request e.inflight) and
          \* started again on the same directory: it must come up and serve exactly the acknowledged state, the
          \* in-flight request being wholly present or wholly absent
          LET cands == {st} \cup (IF e.hasInflight THEN {o.st : o \in Step(st, e.inflight)} ELSE {})
              good  == {s \in cands : e.started /\ ObsOK(e.obs, s)}
              \* KNOWN FINDING Dev_FamilyDropTornByCrash: ModifyColumnFamilies purges the cells of a dropped family
              \* from the stored rows before it persists the new schema; a kill in between recovers the old schema
              \* with the rows already purged -- neither the state before nor the state after the request. The
              \* deviation is exactly that: the in-flight request is an acceptable ModifyFamilies with a drop, the
              \* schema is the old one, and the rows are the old rows without the dropped families' cells.
              torn  == IF e.hasInflight /\ e.started /\ e.inflight.ev = "ModifyFamilies" /\ HasTbl(st, e.inflight.t)
                          /\ DroppedIn(e.inflight.mods) # {} /\ (\E o \in Step(st, e.inflight) : o.resp.ok)
                       THEN {[st EXCEPT !.tables[e.inflight.t].rows = PurgeRows(@, DroppedIn(e.inflight.mods))]}
                       ELSE {}
              tornGood == {s \in torn : ObsOK(e.obs, s)}
          IN IF good # {} THEN st' = (CHOOSE s \in good : TRUE) /\ UNCHANGED <<dead, nrej>>
             ELSE IF tornGood # {}
             THEN /\ Reject(e, "Dev_FamilyDropTornByCrash")
                  /\ st' = (CHOOSE s \in tornGood : TRUE) /\ nrej' = nrej + 1 /\ UNCHANGED dead
             ELSE /\ Reject(e, IF e.started THEN "recovered state" ELSE "restart failed")
                  /\ dead' = TRUE /\ nrej' = nrej + 1 /\ UNCHANGED st
     ELSE LET outs == Step(st, e)
              good == {o \in outs : Explains(e, o)}
          IN IF good # {} THEN st' = (CHOOSE o \in good : TRUE).st /\ UNCHANGED <<dead, nrej>>
             ELSE \* unexplained: report it. When only the reply is wrong (some allowed outcome has exactly the
                  \* state the read-back shows) the rest of the trace is still checked, from that state.
                  LET resync == {o \in outs : StateOK(e, o)} IN
                  /\ Reject(e, IF \E o \in outs : RespOK(e, o.resp) THEN "obs" ELSE "resp")
                  /\ nrej' = nrej + 1
                  /\ IF resync # {} THEN st' = (CHOOSE o \in resync : TRUE).st /\ UNCHANGED dead
                                    ELSE dead' = TRUE /\ UNCHANGED st

Spec == Init /\ [][Next]_vars

\* every step of every reachable model state keeps the design invariants
InvCanonical == Canonical(st)

Done == l = Len(Trace) + 1
\* POSTCONDITION: the whole file was consumed (one state per event plus the initial state)
Consumed == TLCGet("stats").diameter = Len(Trace) + 1
=============================================================================
