package main

import (
	"fmt"
	"math/rand"
	"time"

	"verif/harness/internal/bt"
	"verif/harness/internal/btconc"
	"verif/harness/internal/j"
	"verif/harness/internal/tlc"
)

func init() {
	checks["C12"] = checkC12
	checks["C14"] = checkC14
}

// C12 Bigtable: CheckAndMutateRow applies exactly the branch its predicate selects.
func checkC12(c *Ctx) {
	c.rule = "cases = request histories containing CheckAndMutateRow requests (each preceded by a ReadRows of the same row through the same filter): TLC-enumerated transitions of MC_BtCam with BFS history, and seeded random programs with predicate trees to depth 2; executed on the real emulator on every engine; predicate_matched, status and full read-back validated step by step by TLC against BtData.CheckAndMutate; distinct = distinct history text; non-trivial = at least one request after table creation"
	c.runBtFamily(btFamily{
		Label: "C12", Module: "MC_BtCam",
		Quick:    map[string]string{"MaxCells": "3", "MaxCam": "1"},
		Thorough: map[string]string{"MaxCells": "3", "MaxCam": "2"},
		DumpThor: map[string]string{"MaxCells": "3", "MaxCam": "1"},
		SampleQ:  "15", SampleT: "2", MaxReplayQ: 1500,
		Invariants: []string{"InvCanonical"}, Properties: []string{"FailedIsNoop", "BranchLaw", "NoPredLaw"},
		Gen: genCamProgram, NRandQ: 150, NRandT: 12000,
	})
}

// C14 Bigtable: table, family and row-range admin changes exactly what it names.
func checkC14(c *Ctx) {
	c.rule = "cases = request histories of admin requests (create/get/list/delete table, modify families, drop row range) interleaved with writes over several tables and parents: TLC-enumerated transitions of MC_BtAdmin with BFS history, and seeded random programs; executed on the real emulator on every engine; replies and the full read-back of every table under every parent validated step by step by TLC against BtData; distinct = distinct history text; non-trivial = at least two requests"
	c.runBtFamily(btFamily{
		Label: "C14", Module: "MC_BtAdmin",
		Quick:     map[string]string{"MaxCells": "2", "MaxDepth": "4", "MaxMods": "1"},
		Thorough:  map[string]string{"MaxCells": "2", "MaxDepth": "5", "MaxMods": "3"},
		DumpQuick: map[string]string{"MaxCells": "2", "MaxDepth": "4", "MaxMods": "2"},
		DumpThor:  map[string]string{"MaxCells": "2", "MaxDepth": "4", "MaxMods": "3"},
		SampleQ:   "600", SampleT: "60", MaxReplayQ: 1500,
		Invariants: []string{"InvCanonical"}, Properties: []string{"FailedIsNoop", "Frame", "DropLaw", "TokenLaw"},
		Gen: func(r *rand.Rand) []bt.Op {
			if r.Intn(10) == 0 {
				return genPrefixDropProgram(r)
			}
			return genAdminProgram(r)
		}, NRandQ: 150, NRandT: 9000,
	})
}

func init() { checks["C16"] = checkC16 }

// C16 Bigtable: garbage collection removes exactly what the GC rules condemn.
func checkC16(c *Ctx) {
	c.rule = "cases = request histories with GC passes (forced passes with a scripted clock, and the collector's own quiescence decision on busy / idle tables): TLC-enumerated transitions of MC_BtGc (all rule trees of depth <= 2, cells at the cut-off +-1 ms) with BFS history, and seeded random programs with rule trees to depth 2; executed on the real emulator on every engine; full read-back validated step by step by TLC against BtData.GcPass/GcAuto; distinct = distinct history text; non-trivial = at least two requests"
	c.runBtFamily(btFamily{
		Label: "C16", Module: "MC_BtGc",
		Quick:     map[string]string{"MaxCells": "3", "MaxPasses": "1"},
		Thorough:  map[string]string{"MaxCells": "4", "MaxPasses": "1"},
		DumpQuick: map[string]string{"MaxCells": "3", "MaxPasses": "1"},
		DumpThor:  map[string]string{"MaxCells": "3", "MaxPasses": "1"},
		SampleQ:   "1000", SampleT: "60", MaxReplayQ: 1200,
		Invariants: []string{"InvCanonical", "InvSeqForm"}, Properties: []string{"PassLaw"},
		Gen: genGcProgram, NRandQ: 150, NRandT: 3000,
	})
	checkC16Races(c)
}

// the clause about writes acknowledged while a pass is running: a pass over 230 rows (two lock reversals) with
// concurrent writers, scheduled through the hook gates
func checkC16Races(c *Ctx) {
	c.rule += "; races: a forced pass over a 230-row table (the pass releases and re-takes the table lock every 100 rows) with concurrent increments, two-mutation writes and row deletes on rows before / between / after the lock reversals, scheduled by behaviours of the BtConc model (mixes gc, gcdel) through the hook gates and free-running; each recorded run validated by TLC (BtConcTrace: the pass collects each row as it is when the pass reaches it; acknowledged writes survive; deleted rows stay deleted; final read-back)"
	r := rand.New(rand.NewSource(c.Seed + 16))
	c.modelCheckConc([]string{"gc", "gcdel"}, nil)
	// the model itself shows what goes wrong when the pass writes back its start-of-pass copy
	stale := concModelCfg("gc", false, true, "Spec", concInvs, nil, "")
	if res, err := tlc.Run(tlc.Options{Module: "MC_BtConc", Cfg: stale.TextSubst(), Workers: 4, Timeout: 10 * time.Minute}); err == nil {
		c.Extra("model_with_stale_writeback_violates", res.InvViolated)
	}
	nsim, keep := 400, 20
	if !c.Quick() {
		nsim, keep = 20000, 500
	}
	var scheds []concSched
	for _, mix := range []string{"gc", "gcdel"} {
		ss := c.schedulesConc(mix, false, false, nsim, keep, r)
		c.Extra("race_schedules_"+mix, len(ss))
		scheds = append(scheds, ss...)
	}
	engines := []string{"mem", "disk", "btree"}
	concrete := map[int]int{1: 40, 2: 150, 3: 215}
	var jobs []concJob
	for n, s := range scheds {
		kinds, rows := mixKinds[s.Mix], mixRows[s.Mix]
		var procs []btconc.Proc
		for i, k := range kinds {
			row := concrete[rows[i]]
			if r.Intn(3) == 0 {
				row = 1 + r.Intn(230)
			}
			procs = append(procs, btconc.Proc{Name: procName(i + 1), Op: concOp(k, rowKey(row), procName(i+1))})
		}
		var sched []string
		for _, p := range s.Steps {
			sched = append(sched, procName(p))
		}
		jobs = append(jobs, concJob{engine: engines[n%3], setup: concSetup(230, true, 2), procs: procs, sched: sched, label: fmt.Sprintf("GC pass, mix %s, schedule %v", s.Mix, s.Steps)})
	}
	nStress := 6
	if !c.Quick() {
		nStress = 150
	}
	kinds := []string{"incr", "mut2", "del", "incr", "mut2", "cas"}
	for i := 0; i < nStress; i++ {
		procs := []btconc.Proc{{Name: "p1", Op: concOp("gc", nil, "p1")}}
		for p := 0; p < 6; p++ {
			procs = append(procs, btconc.Proc{Name: procName(p + 2), Op: concOp(kinds[(p+i)%len(kinds)], rowKey(1+r.Intn(230)), procName(p+2))})
		}
		jobs = append(jobs, concJob{engine: engines[i%3], setup: concSetup(230, true, 2), procs: procs, opt: btconc.Options{Free: true}, label: fmt.Sprintf("free-running GC pass + 6 writers %d", i)})
	}
	// targeted: every stored cell is older than the max-age rule allows, so the pass empties (and finally deletes)
	// the rows; the pass is driven into each of its lock hand-overs and there rows it has already emptied, the row
	// it will collect next and rows further on are written or deleted
	for ei, eng := range engines {
		if c.Quick() && ei != int(c.Seed)%len(engines) && ei != (int(c.Seed)+1)%len(engines) {
			continue
		}
		setup := []bt.Op{{Ev: "CreateTable", T: concTable, Parent: btParent, Fams: []bt.FamDef{{F: j.S("f"), Rule: bt.Rule{T: "maxage", Us: 1_000_000}}, {F: j.S("g"), Rule: bt.Rule{T: "none"}}}}}
		fill := bt.Op{Ev: "MutateRows", T: concTable, Now: j.N64(concNow)}
		for i := 1; i <= 230; i++ {
			ms := []bt.Mut{{M: "set", F: j.S("f"), Q: j.S("x"), Ts: 0, V: j.S("v")}, {M: "set", F: j.S("f"), Q: j.S("x"), Ts: 1000, V: j.S("v")}}
			if i%7 == 0 {
				ms = append(ms, bt.Mut{M: "set", F: j.S("g"), Q: j.S("y"), Ts: 1000, V: j.S("kept")})
			}
			fill.Entries = append(fill.Entries, bt.Entry{K: rowKey(i), Muts: ms})
		}
		setup = append(setup, fill)
		procs := []btconc.Proc{{Name: "p1", Op: concOp("gc", nil, "p1")}}
		sched := []string{"p1>window"}
		np := 1
		add := func(kind string, row int) {
			np++
			procs = append(procs, btconc.Proc{Name: procName(np), Op: concOp(kind, rowKey(row), procName(np))})
			sched = append(sched, procName(np)+"!")
		}
		add("mut2", 50)  // a row the pass has emptied
		add("incr", 60)  // likewise, with a fresh timestamp
		add("mut2", 101) // the row the pass collects next
		add("del", 150)  // a row further on
		add("mut2", 100) // the row the batch ended on
		sched = append(sched, "p1>window")
		add("mut2", 50)
		add("mut2", 201)
		add("incr", 230)
		add("del", 60)
		jobs = append(jobs, concJob{engine: eng, setup: setup, procs: procs, sched: sched, label: "targeted GC pass: max-age empties every row; writes in both lock hand-overs"})
	}
	c.runConc("C16", jobs)
}
