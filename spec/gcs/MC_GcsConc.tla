---- MODULE MC_GcsConc ----
EXTENDS GcsConc, Json
CONSTANTS MixName
Mixes == [ put3   |-> [procs |-> {1, 2, 3}, kind |-> <<"putIfGen", "putIfGen", "putIfGen">>, present |-> TRUE],
           create |-> [procs |-> {1, 2, 3}, kind |-> <<"putIfAbsent", "putIfAbsent", "get">>, present |-> FALSE],
           patch  |-> [procs |-> {1, 2, 3}, kind |-> <<"patchIfMeta", "patchIfMeta", "get">>, present |-> TRUE],
           mixed  |-> [procs |-> {1, 2, 3}, kind |-> <<"putIfGen", "delIfGen", "patchIfMeta">>, present |-> TRUE],
           reads  |-> [procs |-> {1, 2, 3}, kind |-> <<"putIfGen", "get", "get">>, present |-> TRUE],
           putdel |-> [procs |-> {1, 2, 3}, kind |-> <<"put", "del", "patchIfMeta">>, present |-> TRUE] ]
Mix == Mixes[MixName]
MProcs == Mix.procs
MKind == Mix.kind
MPresent == Mix.present
====
