------------------------------ MODULE GcsMCBase -----------------------------
(***************************************************************************)
(* Shared scaffolding of the bounded Cloud Storage models (like MCBase):   *)
(* st = GcsData state, path = request history (hidden from the VIEW),      *)
(* last = what the last request did.  Generations are drawn from a global  *)
(* counter (greater than every generation used so far), which the harness  *)
(* maps to the real generations it observes when it replays a history.     *)
(***************************************************************************)
EXTENDS GcsData, Json

CONSTANTS DumpEdges, SampleK

VARIABLES st, path, last
vars == <<st, path, last>>

MaxOf(S) == IF S = {} THEN 0 ELSE CHOOSE x \in S : \A y \in S : y <= x
NextGen(s) == 1 + MaxOf({s.maxGen[k] : k \in DOMAIN s.maxGen})

Do(op) == \E o \in Step(st, op) :
            /\ st' = o.st
            /\ path' = Append(path, op)
            /\ last' = [op |-> op, resp |-> o.resp, changed |-> o.st # st]

RECURSIVE RunAll(_, _)
RunAll(s, ops) == IF ops = <<>> THEN s ELSE RunAll((CHOOSE o \in Step(s, Head(ops)) : o.resp.ok).st, Tail(ops))
InitWith(ops) == st = RunAll(InitSt, ops) /\ path = ops /\ last = [op |-> [ev |-> "none"], resp |-> [ok |-> TRUE, codes |-> {200}], changed |-> FALSE]

Dump == (DumpEdges /\ last.op.ev # "none" /\ RandomElement(1..SampleK) = 1) => PrintT(<<"PATH", ToJson(path)>>)
View == st

U == [k |-> "unset"]
V(x) == [k |-> "val", v |-> x]
Bad == [k |-> "bad"]
CondsOf(gm, gnm, mm, mnm) == [gm |-> gm, gnm |-> gnm, mm |-> mm, mnm |-> mnm]

InvGen == GenInv(st)
\* a request that does not succeed changes no object (C04) -- pending uploads aside
FailedIsNoop == [][(~last'.resp.ok) => (st'.buckets = st.buckets /\ st'.maxGen = st.maxGen)]_vars

ObjOr0(s, b, n) == IF HasObj(s, b, n) THEN Obj(s, b, n) ELSE [gen |-> 0, metagen |-> 0]
AllNames(s) == UNION {{<<b, n>> : n \in DOMAIN s.buckets[b]} : b \in DOMAIN s.buckets}
\* versioning laws (C10): across any step, for every name
\*  - a changed generation is greater than every earlier generation of the name and comes with metageneration 1
\*  - an unchanged generation with a changed metageneration: exactly +1, same content and MD5
VersioningLaws == [][\A bn \in AllNames(st) \cup AllNames(st') :
     LET o == ObjOr0(st, bn[1], bn[2])  p == ObjOr0(st', bn[1], bn[2]) IN
     /\ (p.gen # o.gen /\ p.gen # 0) => (p.gen > MaxGen(st, bn[1], bn[2]) /\ p.metagen = 1)
     /\ (p.gen = o.gen /\ p.gen # 0 /\ p.metagen # o.metagen) =>
           (p.metagen = o.metagen + 1 /\ p.content = o.content /\ p.md5 = o.md5)
     /\ (p.gen = o.gen /\ p.gen # 0 /\ p.metagen = o.metagen) => p = o
   ]_vars
\* every request changes at most the object it names as its target (C02: other names are never affected)
Target(op) == IF op.ev = "Copy" THEN <<op.db, op.dn>> ELSE IF "n" \in DOMAIN op THEN <<op.b, op.n>> ELSE <<>>
Frame == [][\A bn \in AllNames(st) \cup AllNames(st') :
     (bn = Target(last'.op)) \/ last'.op.ev \in {"DeleteBucket", "ResumablePut"} \/
     (HasObj(st, bn[1], bn[2]) = HasObj(st', bn[1], bn[2]) /\ (HasObj(st, bn[1], bn[2]) => Obj(st, bn[1], bn[2]) = Obj(st', bn[1], bn[2])))
   ]_vars
=============================================================================
