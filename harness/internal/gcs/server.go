package gcs

import (
	"bufio"
	"bytes"
	"compress/gzip"
	"crypto/md5"
	"encoding/base64"
	"encoding/json"
	"fmt"
	"io"
	"mime"
	"mime/multipart"
	"net/http"
	"net/url"
	"os"
	"path/filepath"
	"sort"
	"strconv"
	"strings"
	"sync/atomic"
	"time"

	"github.com/fullstorydev/emulators/storage/gcsemu"

	"verif/harness/internal/j"
)

// Server is one real emulator instance (memory or file store) plus an HTTP client.
type Server struct {
	nBody int64
	Store string // mem | file
	Dir   string
	Srv   *gcsemu.Server
	URL   string
	HC    *http.Client

	buckets   []string            // bucket names used so far
	names     map[string][]string // bucket -> object names used so far
	last      *Obs
	ids       map[int]int       // program op index of a ResumableStart -> upload id handed out
	upBN      map[int][2]string // upload id -> bucket, name given at the start
	model     map[int64]int64
	Logs      []string
	abandoned []*gcsemu.Server
	extraHdr  map[string]string
	frozen    bool // concurrent use: do not record new bucket/object names
}

// Prepare resolves the symbolic condition values of op from the last read-back (so that concurrent requests can
// then be issued with ExecHdr without touching shared harness state).
func (s *Server) Prepare(op *Op) {
	b, n := string(op.B), string(op.N)
	if op.Ev == "Upload" {
		op.Md5 = j.S(md5b64(op.Content))
	}
	op.Conds = s.resolve(op.Conds, b, n, nil)
	for i := range op.Srcs {
		c := s.resolve(Conds{Gm: op.Srcs[i].Gm, Gnm: Unset(), Mm: Unset(), Mnm: Unset()}, b, string(op.Srcs[i].N), nil)
		op.Srcs[i].Gm = c.Gm
	}
}

// ExecHdr is Exec with extra request headers, safe to call concurrently: it works on a private view of the
// server handle (object names must have been registered by the setup; symbolic values resolved by Prepare).
func (s *Server) ExecHdr(op *Op, hdr map[string]string) {
	view := *s
	view.extraHdr = hdr
	view.frozen = true
	view.Exec(op, map[string][]int64{}, 0)
}

func Start(store, dir string) (*Server, error) {
	s := &Server{Store: store, Dir: dir, names: map[string][]string{}, ids: map[int]int{}, upBN: map[int][2]string{}, model: map[int64]int64{}}
	opts := gcsemu.Options{}
	if store == "file" {
		opts.Store = gcsemu.NewFileStore(dir)
	} else {
		opts.Store = gcsemu.NewMemStore()
	}
	srv, err := gcsemu.NewServer("127.0.0.1:0", opts)
	if err != nil {
		return nil, err
	}
	s.Srv = srv
	s.URL = "http://" + srv.Addr
	s.HC = &http.Client{Timeout: 12 * time.Second, Transport: &http.Transport{DisableCompression: true, MaxIdleConnsPerHost: 4},
		CheckRedirect: func(*http.Request, []*http.Request) error { return http.ErrUseLastResponse }}
	return s, nil
}

func (s *Server) Close() {
	for _, a := range s.abandoned {
		a.Close()
	}
	s.abandoned = nil
	if s.HC != nil {
		s.HC.CloseIdleConnections()
	}
	if s.Srv != nil {
		// httptest.Server.Close waits for outstanding requests: with a handler that never returns (a wedged emulator,
		// already reported as an unanswered request) it would wait for ever. The wedged server is abandoned.
		done := make(chan struct{})
		go func() { s.Srv.Close(); close(done) }()
		select {
		case <-done:
		case <-time.After(5 * time.Second):
		}
	}
}

func (s *Server) CloseAndRemove() {
	s.Close()
	if s.Dir != "" {
		_ = os.RemoveAll(s.Dir)
	}
}

func (s *Server) noteBucket(b string) {
	if s.frozen {
		return
	}
	for _, x := range s.buckets {
		if x == b {
			return
		}
	}
	s.buckets = append(s.buckets, b)
	sort.Strings(s.buckets)
}

func (s *Server) noteName(b, n string) {
	if s.frozen {
		return
	}
	s.noteBucket(b)
	for _, x := range s.names[b] {
		if x == n {
			return
		}
	}
	s.names[b] = append(s.names[b], n)
	sort.Strings(s.names[b])
}

// esc escapes an object name for a URL path; slash=true leaves '/' unescaped.
func esc(name string, slash bool) string {
	if slash {
		parts := strings.Split(name, "/")
		for i := range parts {
			parts[i] = url.PathEscape(parts[i])
		}
		return strings.Join(parts, "/")
	}
	return url.PathEscape(name)
}

type httpResult struct {
	code    int
	header  http.Header
	body    []byte
	aborted bool
	err     string
}

func (s *Server) do(method, rawurl string, hdr map[string]string, body []byte, gz bool) httpResult {
	var rd io.Reader
	if body != nil {
		if gz {
			var buf bytes.Buffer
			zw := gzip.NewWriter(&buf)
			_, _ = zw.Write(body)
			_ = zw.Close()
			body = buf.Bytes()
		}
		rd = bytes.NewReader(body)
		// transfer framing is an encoding of the same request: every other body is streamed (no Content-Length,
		// chunked transfer encoding), the rest is sent with its length
		if n := atomic.AddInt64(&s.nBody, 1); n%2 == 0 && len(body) > 0 {
			rd = struct{ io.Reader }{rd}
		}
	}
	req, err := http.NewRequest(method, rawurl, rd)
	if err != nil {
		return httpResult{aborted: true, err: err.Error()}
	}
	for k, v := range hdr {
		req.Header.Set(k, v)
	}
	for k, v := range s.extraHdr {
		req.Header.Set(k, v)
	}
	if gz {
		req.Header.Set("Content-Encoding", "gzip")
	}
	resp, err := s.HC.Do(req)
	if err != nil {
		return httpResult{aborted: true, err: err.Error()}
	}
	defer resp.Body.Close()
	b, err := io.ReadAll(resp.Body)
	if err != nil {
		return httpResult{code: resp.StatusCode, header: resp.Header, body: b, aborted: true, err: err.Error()}
	}
	return httpResult{code: resp.StatusCode, header: resp.Header, body: b}
}

type apiObject struct {
	Name               string            `json:"name"`
	Bucket             string            `json:"bucket"`
	Generation         string            `json:"generation"`
	Metageneration     string            `json:"metageneration"`
	Md5Hash            string            `json:"md5Hash"`
	Size               string            `json:"size"`
	ContentType        string            `json:"contentType"`
	CacheControl       string            `json:"cacheControl"`
	ContentDisposition string            `json:"contentDisposition"`
	ContentEncoding    string            `json:"contentEncoding"`
	ContentLanguage    string            `json:"contentLanguage"`
	Metadata           map[string]string `json:"metadata"`
}

func atoi64(s string) int64 { v, _ := strconv.ParseInt(s, 10, 64); return v }

func viewOf(o *apiObject) View {
	sz, _ := strconv.Atoi(o.Size)
	return View{Gen: atoi64(o.Generation), Metagen: atoi64(o.Metageneration), Md5: j.S(o.Md5Hash), Size: sz,
		Attrs: Attrs{Ct: j.S(o.ContentType), Cc: j.S(o.CacheControl), Cd: j.S(o.ContentDisposition), Ce: j.S(o.ContentEncoding), Cl: j.S(o.ContentLanguage)},
		Meta:  sortMeta(o.Metadata)}
}

func errJSON(code int, body []byte) bool {
	var e struct {
		Error struct {
			Code int `json:"code"`
		} `json:"error"`
	}
	return json.Unmarshal(body, &e) == nil && e.Error.Code == code
}

func condParams(q url.Values, c Conds) {
	for _, x := range []struct {
		name string
		c    Cond
	}{{"ifGenerationMatch", c.Gm}, {"ifGenerationNotMatch", c.Gnm}, {"ifMetagenerationMatch", c.Mm}, {"ifMetagenerationNotMatch", c.Mnm}} {
		switch x.c.K {
		case "val":
			q.Set(x.name, strconv.FormatInt(x.c.V, 10))
		case "bad":
			raw := x.c.Raw
			if raw == "" {
				raw = "abc"
			}
			q.Set(x.name, raw)
		}
	}
}

func objectJSON(name string, attrs []KV, meta []KVB, md5decl string) []byte {
	m := map[string]interface{}{}
	if name != "" {
		m["name"] = name
	}
	for _, a := range attrs {
		key := map[string]string{"ct": "contentType", "cc": "cacheControl", "cd": "contentDisposition", "ce": "contentEncoding", "cl": "contentLanguage"}[a.K]
		m[key] = string(a.V)
	}
	if len(meta) > 0 {
		mm := map[string]string{}
		for _, kv := range meta {
			mm[string(kv.K)] = string(kv.V)
		}
		m["metadata"] = mm
	}
	if md5decl != "" {
		m["md5Hash"] = md5decl
	}
	b, _ := json.Marshal(m)
	return b
}

func md5b64(b []byte) string {
	h := md5.Sum(b)
	return base64.StdEncoding.EncodeToString(h[:])
}

func declared(decl string, content []byte) string {
	switch decl {
	case "ok":
		return md5b64(content)
	case "wrong":
		return md5b64(append([]byte("not-"), content...))
	case "invalid":
		return "!!not-base64!!"
	}
	return ""
}

// curOf returns the generation / metageneration of an object as last read back (0,0,false if absent).
func (s *Server) curOf(b, n string) (int64, int64, bool) {
	if s.last == nil {
		return 0, 0, false
	}
	for _, ob := range s.last.Buckets {
		if string(ob.B) != b {
			continue
		}
		for _, o := range ob.Objs {
			if string(o.N) == n && o.Present {
				return o.View.Gen, o.View.Metagen, true
			}
		}
	}
	return 0, 0, false
}

// resolve turns symbolic condition values into concrete numbers (from observations only).
func (s *Server) resolve(c Conds, b, n string, hist []int64) Conds {
	gen, metagen, present := s.curOf(b, n)
	one := func(x Cond, isGen bool) Cond {
		if x.K != "val" {
			return x
		}
		cur := metagen
		if isGen {
			cur = gen
		}
		if !present {
			cur = 12345
			if !isGen {
				cur = 1
			}
		}
		switch x.Sym {
		case "cur":
			x.V = cur
		case "other":
			x.V = cur + 1
		case "prev":
			x.V = cur + 7
			if isGen {
				for _, h := range hist {
					if h != gen {
						x.V = h
					}
				}
			}
		case "zero":
			x.V = 0
		case "model":
			if r, ok := s.model[x.V]; ok {
				x.V = r
			} else {
				x.V = 1000 + x.V // a number no real generation (nanoseconds since 1970) can equal
			}
		}
		x.Sym = ""
		return x
	}
	return Conds{Gm: one(c.Gm, true), Gnm: one(c.Gnm, true), Mm: one(c.Mm, false), Mnm: one(c.Mnm, false)}
}

func (s *Server) fillObject(r *Resp, res httpResult) {
	var o apiObject
	if json.Unmarshal(res.body, &o) == nil && o.Generation != "" {
		r.View, r.HasView = viewOf(&o), true
	}
	r.Hgen = atoi64(res.header.Get("x-goog-generation"))
	r.Hmetagen = atoi64(res.header.Get("X-Goog-Metageneration"))
}

func (s *Server) finish(r *Resp, res httpResult) {
	r.Code = res.code
	r.Aborted = res.aborted
	if res.aborted {
		r.Code = -1
		r.Raw = res.err
	}
	if res.code >= 300 {
		r.ErrJSON = errJSON(res.code, res.body)
		if len(res.body) < 300 {
			r.Raw = string(res.body)
		}
	}
}

// Exec issues op and fills op.Resp (and the resolved condition values / reported generation in op).
func (s *Server) Exec(op *Op, hist map[string][]int64, opIndex int) {
	r := &Resp{}
	op.Resp = r
	b, n := string(op.B), string(op.N)
	if len(op.B) > 0 {
		s.noteBucket(b)
	}
	q := url.Values{}
	switch op.Ev {
	case "CreateBucket":
		body, _ := json.Marshal(map[string]string{"name": b})
		s.finish(r, s.do("POST", s.URL+"/storage/v1/b", map[string]string{"Content-Type": "application/json"}, body, false))
	case "GetBucket":
		s.finish(r, s.do("GET", s.URL+"/storage/v1/b/"+url.PathEscape(b), nil, nil, false))
	case "DeleteBucket":
		s.finish(r, s.do("DELETE", s.URL+"/storage/v1/b/"+url.PathEscape(b), nil, nil, false))
	case "Upload":
		s.noteName(b, n)
		op.Conds = s.resolve(op.Conds, b, n, hist[b+"\x00"+n])
		op.Md5 = j.S(md5b64(op.Content))
		condParams(q, op.Conds)
		var res httpResult
		ct := ""
		for _, a := range op.Attrs {
			if a.K == "ct" {
				ct = string(a.V)
			}
		}
		switch op.Proto {
		case "multipart":
			q.Set("uploadType", "multipart")
			var buf bytes.Buffer
			bd := "verif-boundary-7MA4YWxkTrZu0gW"
			fmt.Fprintf(&buf, "--%s\r\nContent-Type: application/json; charset=UTF-8\r\n\r\n%s\r\n--%s\r\nContent-Type: %s\r\n\r\n", bd, objectJSON(n, op.Attrs, op.Meta, declared(op.Decl, op.Content)), bd, "application/octet-stream")
			buf.Write(op.Content)
			fmt.Fprintf(&buf, "\r\n--%s--\r\n", bd)
			res = s.do("POST", s.URL+"/upload/storage/v1/b/"+url.PathEscape(b)+"/o?"+q.Encode(), map[string]string{"Content-Type": "multipart/related; boundary=" + bd}, buf.Bytes(), op.Gzip)
		default: // media: only the content type can be given
			q.Set("uploadType", "media")
			q.Set("name", n)
			res = s.do("POST", s.URL+"/upload/storage/v1/b/"+url.PathEscape(b)+"/o?"+q.Encode(), map[string]string{"Content-Type": ct}, op.Content, op.Gzip)
		}
		s.finish(r, res)
		if res.code == 200 {
			s.fillObject(r, res)
			op.Gen = r.View.Gen
		}
	case "ResumableStart":
		s.noteName(b, n)
		op.Conds = s.resolve(op.Conds, b, n, hist[b+"\x00"+n])
		condParams(q, op.Conds)
		q.Set("uploadType", "resumable")
		res := s.do("POST", s.URL+"/upload/storage/v1/b/"+url.PathEscape(b)+"/o?"+q.Encode(), map[string]string{"Content-Type": "application/json"}, objectJSON(n, op.Attrs, op.Meta, ""), op.Gzip)
		s.finish(r, res)
		if res.code == 200 {
			loc := res.header.Get("Location")
			if i := strings.LastIndex(loc, "upload_id="); i >= 0 {
				op.Id, _ = strconv.Atoi(loc[i+len("upload_id="):])
			}
			if !s.frozen {
				s.ids[opIndex] = op.Id
				s.upBN[op.Id] = [2]string{b, n}
			}
		}
	case "ResumablePut":
		if id, ok := s.ids[op.Ref]; ok && op.Ref > 0 {
			op.Id = id
		}
		q.Set("uploadType", "resumable")
		q.Set("upload_id", strconv.Itoa(op.Id))
		cr := "bytes "
		if op.Lo < 0 {
			cr += "*"
		} else {
			cr += fmt.Sprintf("%d-%d", op.Lo, op.Lo+len(op.Data)-1)
		}
		if op.Total < 0 {
			cr += "/*"
		} else {
			cr += fmt.Sprintf("/%d", op.Total)
		}
		method := op.Method
		if method == "" {
			method = "PUT"
		}
		u := s.URL + "/upload/storage/v1/b/anything/o?" + q.Encode()
		if bn, ok := s.upBN[op.Id]; ok && method == "POST" {
			// the session URI form handed out in the Location header (what the Go client library POSTs its chunks to)
			u = s.URL + "/storage/v1/b/" + url.PathEscape(bn[0]) + "/o/" + esc(bn[1], true) + "?upload_id=" + strconv.Itoa(op.Id)
		} else if method == "POST" {
			method = "PUT"
		}
		hdrs := map[string]string{"Content-Range": cr}
		if op.No308 {
			hdrs["X-Guploader-No-308"] = "yes"
		}
		res := s.do(method, u, hdrs, []byte(op.Data), false)
		s.finish(r, res)
		r.Override, _ = strconv.Atoi(res.header.Get("X-Http-Status-Code-Override"))
		r.Persisted = -1
		if res.code == 308 || (op.No308 && res.code == 200 && r.Override == 308) {
			if rg := res.header.Get("Range"); strings.HasPrefix(rg, "bytes=0-") {
				v, err := strconv.Atoi(rg[len("bytes=0-"):])
				if err == nil {
					r.Persisted = v + 1
				}
			}
		}
		if res.code == 200 && r.Override != 308 {
			s.fillObject(r, res)
			op.Gen = r.View.Gen
		}
	case "GetMedia":
		s.noteName(b, n)
		var u string
		switch op.Form {
		case "download":
			u = s.URL + "/download/storage/v1/b/" + url.PathEscape(b) + "/o/" + esc(n, op.Slash) + "?alt=media"
		case "public":
			u = s.URL + "/" + url.PathEscape(b) + "/" + esc(n, true)
		default:
			u = s.URL + "/storage/v1/b/" + url.PathEscape(b) + "/o/" + esc(n, op.Slash) + "?alt=media"
		}
		var hdr map[string]string
		if op.AcceptGz {
			hdr = map[string]string{"Accept-Encoding": "gzip"}
		}
		res := s.do("GET", u, hdr, nil, false)
		s.finish(r, res)
		if res.code == 200 {
			r.Body = j.B(res.body)
			r.Henc = j.S(res.header.Get("Content-Encoding"))
			r.Hcd = j.S(res.header.Get("Content-Disposition"))
			r.Hgen = atoi64(res.header.Get("X-Goog-Generation"))
			r.Hmetagen = atoi64(res.header.Get("X-Goog-Metageneration"))
			r.Hctype = j.S(res.header.Get("Content-Type"))
		}
	case "GetMeta":
		s.noteName(b, n)
		res := s.do("GET", s.URL+"/storage/v1/b/"+url.PathEscape(b)+"/o/"+esc(n, op.Slash), nil, nil, false)
		s.finish(r, res)
		if res.code == 200 {
			s.fillObject(r, res)
		}
	case "Patch":
		s.noteName(b, n)
		op.Conds = s.resolve(op.Conds, b, n, hist[b+"\x00"+n])
		condParams(q, op.Conds)
		body := objectJSON("", op.Attrs, op.Meta, "")
		if op.BadBody {
			body = []byte(`{"contentType": "x", "metadata": {"zz": "1"`)
		} else if op.Junk {
			// what a client that sends back a whole (stale) object resource does
			var m map[string]interface{}
			_ = json.Unmarshal(body, &m)
			m["generation"], m["metageneration"], m["size"], m["bucket"], m["id"], m["kind"] = "1", "1", "12345", "elsewhere", "elsewhere/x/1", "storage#object"
			body, _ = json.Marshal(m)
		}
		res := s.do("PATCH", s.URL+"/storage/v1/b/"+url.PathEscape(b)+"/o/"+esc(n, op.Slash)+"?"+q.Encode(), map[string]string{"Content-Type": "application/json"}, body, false)
		s.finish(r, res)
		if res.code == 200 {
			s.fillObject(r, res)
		}
	case "Delete":
		s.noteName(b, n)
		op.Conds = s.resolve(op.Conds, b, n, hist[b+"\x00"+n])
		condParams(q, op.Conds)
		s.finish(r, s.do("DELETE", s.URL+"/storage/v1/b/"+url.PathEscape(b)+"/o/"+esc(n, op.Slash)+"?"+q.Encode(), nil, nil, false))
	case "Batch":
		// sub-requests (Delete, GetMeta, GetBucket, Patch) in one multipart/mixed body; conditions are resolved
		// against what was last read back, i.e. the state before the batch
		var body bytes.Buffer
		for i := range op.Parts {
			p := &op.Parts[i]
			pb, pn := string(p.B), string(p.N)
			if p.Ev != "GetBucket" {
				s.noteName(pb, pn)
			}
			pq := url.Values{}
			var method, path string
			var pbody []byte
			switch p.Ev {
			case "Delete":
				p.Conds = s.resolve(p.Conds, pb, pn, hist[pb+"\x00"+pn])
				condParams(pq, p.Conds)
				method, path = "DELETE", "/storage/v1/b/"+url.PathEscape(pb)+"/o/"+esc(pn, false)
			case "GetMeta":
				method, path = "GET", "/storage/v1/b/"+url.PathEscape(pb)+"/o/"+esc(pn, false)
			case "GetBucket":
				method, path = "GET", "/storage/v1/b/"+url.PathEscape(pb)
			case "Patch":
				p.Conds = s.resolve(p.Conds, pb, pn, hist[pb+"\x00"+pn])
				condParams(pq, p.Conds)
				method, path = "PATCH", "/storage/v1/b/"+url.PathEscape(pb)+"/o/"+esc(pn, false)
				pbody = objectJSON("", p.Attrs, p.Meta, "")
			default:
				panic("batch part " + p.Ev)
			}
			if enc := pq.Encode(); enc != "" {
				path += "?" + enc
			}
			fmt.Fprintf(&body, "--verifbatch\r\nContent-Type: application/http\r\n")
			if len(p.Cid) > 0 {
				fmt.Fprintf(&body, "Content-ID: %s\r\n", p.Cid)
			}
			fmt.Fprintf(&body, "\r\n%s %s HTTP/1.1\r\n", method, path)
			if pbody != nil {
				fmt.Fprintf(&body, "Content-Type: application/json\r\nContent-Length: %d\r\n\r\n%s\r\n", len(pbody), pbody)
			} else {
				body.WriteString("\r\n\r\n")
			}
		}
		body.WriteString("--verifbatch--\r\n")
		res := s.do("POST", s.URL+"/batch/storage/v1", map[string]string{"Content-Type": "multipart/mixed; boundary=verifbatch"}, body.Bytes(), false)
		s.finish(r, res)
		if res.code == 200 {
			if _, params, err := mime.ParseMediaType(res.header.Get("Content-Type")); err == nil {
				mr := multipart.NewReader(bytes.NewReader(res.body), params["boundary"])
				for {
					part, err := mr.NextPart()
					if err != nil {
						break
					}
					raw, _ := io.ReadAll(part)
					pr := PartResp{Cid: j.S(part.Header.Get("Content-ID")), Resp: &Resp{}}
					if hr, err := http.ReadResponse(bufio.NewReader(bytes.NewReader(raw)), nil); err == nil {
						pbody, _ := io.ReadAll(hr.Body)
						sub := httpResult{code: hr.StatusCode, header: hr.Header, body: pbody}
						s.finish(pr.Resp, sub)
						if hr.StatusCode == 200 {
							s.fillObject(pr.Resp, sub)
						}
					} else {
						pr.Resp.Code, pr.Resp.Raw = -1, "unparsable sub-response: "+err.Error()
					}
					r.Parts = append(r.Parts, pr)
				}
			}
		}
	case "Compose":
		s.noteName(b, n)
		op.Conds = s.resolve(op.Conds, b, n, hist[b+"\x00"+n])
		condParams(q, op.Conds)
		type srcJ struct {
			Name string                 `json:"name"`
			Pre  map[string]interface{} `json:"objectPreconditions,omitempty"`
		}
		var srcs []srcJ
		for i := range op.Srcs {
			sn := string(op.Srcs[i].N)
			s.noteName(b, sn)
			c := s.resolve(Conds{Gm: op.Srcs[i].Gm, Gnm: Unset(), Mm: Unset(), Mnm: Unset()}, b, sn, hist[b+"\x00"+sn])
			op.Srcs[i].Gm = c.Gm
			sj := srcJ{Name: sn}
			if c.Gm.K == "val" {
				sj.Pre = map[string]interface{}{"ifGenerationMatch": strconv.FormatInt(c.Gm.V, 10)}
			}
			srcs = append(srcs, sj)
		}
		var dest json.RawMessage = objectJSON("", op.Attrs, op.Meta, "")
		body, _ := json.Marshal(map[string]interface{}{"sourceObjects": srcs, "destination": dest})
		res := s.do("POST", s.URL+"/storage/v1/b/"+url.PathEscape(b)+"/o/"+esc(n, op.Slash)+"/compose?"+q.Encode(), map[string]string{"Content-Type": "application/json"}, body, false)
		s.finish(r, res)
		if res.code == 200 {
			s.fillObject(r, res)
			// compose replies carry no generation headers: take them from the body for the agreement check
			r.Hgen, r.Hmetagen = r.View.Gen, r.View.Metagen
			op.Gen = r.View.Gen
		}
	case "Copy":
		s.noteName(b, n)
		s.noteName(string(op.Db), string(op.Dn))
		u := s.URL + "/storage/v1/b/" + url.PathEscape(b) + "/o/" + esc(n, op.Slash) + "/rewriteTo/b/" + url.PathEscape(string(op.Db)) + "/o/" + esc(string(op.Dn), op.Slash)
		res := s.do("POST", u, nil, nil, false)
		s.finish(r, res)
		if res.code == 200 {
			var rr struct {
				Done                bool      `json:"done"`
				TotalBytesRewritten string    `json:"totalBytesRewritten"`
				ObjectSize          string    `json:"objectSize"`
				Resource            apiObject `json:"resource"`
			}
			if json.Unmarshal(res.body, &rr) == nil {
				r.Done = rr.Done
				r.Rewritten, _ = strconv.Atoi(rr.TotalBytesRewritten)
				r.ObjectSize, _ = strconv.Atoi(rr.ObjectSize)
				r.View, r.HasView = viewOf(&rr.Resource), true
				op.Gen = r.View.Gen
			}
		}
	case "List":
		r.Pages, r.Ended, r.Code, r.ErrJSON = s.list(b, string(op.Prefix), string(op.Delim), op.MaxResults, 60)
	case "Restart":
		// a new emulator instance on the same directory; kill=false stops the old one first (clean stop),
		// kill=true abandons it as it is (as after a kill between requests; it is closed at the end of the run)
		if s.Store != "file" {
			panic("Restart needs the file store")
		}
		old := s.Srv
		if !op.Kill {
			s.HC.CloseIdleConnections()
			old.Close()
		} else {
			s.abandoned = append(s.abandoned, old)
		}
		srv, err := gcsemu.NewServer("127.0.0.1:0", gcsemu.Options{Store: gcsemu.NewFileStore(s.Dir)})
		if err != nil {
			r.Code = -1
			r.Raw = err.Error()
			break
		}
		s.Srv, s.URL = srv, "http://"+srv.Addr
		s.ids, s.upBN = map[int]int{}, map[int][2]string{}
	case "LegacyFile":
		s.noteName(b, n)
		p := filepath.Join(s.Dir, b, filepath.FromSlash(n))
		if err := os.MkdirAll(filepath.Dir(p), 0777); err != nil {
			panic(err)
		}
		if err := os.WriteFile(p, op.Content, 0666); err != nil {
			panic(err)
		}
	default:
		panic("unknown op " + op.Ev)
	}
}

// list follows nextPageToken until it is empty (at most maxPages pages).
func (s *Server) list(b, prefix, delim string, maxResults, maxPages int) ([]Page, bool, int, bool) {
	var pages []Page
	token := ""
	for p := 0; p < maxPages; p++ {
		q := url.Values{}
		if prefix != "" {
			q.Set("prefix", prefix)
		}
		if delim != "" {
			q.Set("delimiter", delim)
		}
		if maxResults != 0 {
			q.Set("maxResults", strconv.Itoa(maxResults))
		}
		if token != "" {
			q.Set("pageToken", token)
		}
		res := s.do("GET", s.URL+"/storage/v1/b/"+url.PathEscape(b)+"/o?"+q.Encode(), nil, nil, false)
		if res.code != 200 {
			code := res.code
			if res.aborted {
				code = -1
			}
			return pages, false, code, errJSON(res.code, res.body)
		}
		var l struct {
			Items         []apiObject `json:"items"`
			Prefixes      []string    `json:"prefixes"`
			NextPageToken string      `json:"nextPageToken"`
		}
		if err := json.Unmarshal(res.body, &l); err != nil {
			return pages, false, -2, false
		}
		pg := Page{}
		for i := range l.Items {
			pg.Items = append(pg.Items, Item{N: j.S(l.Items[i].Name), View: viewOf(&l.Items[i])})
		}
		for _, x := range l.Prefixes {
			pg.Prefixes = append(pg.Prefixes, j.S(x))
		}
		pages = append(pages, pg)
		token = l.NextPageToken
		if token == "" {
			return pages, true, 200, false
		}
	}
	return pages, false, 200, false
}

// Observe reads back every bucket and every object name used so far.
func (s *Server) Observe() *Obs {
	obs := &Obs{}
	for _, b := range s.buckets {
		ob := ObsBucket{B: j.S(b)}
		res := s.do("GET", s.URL+"/storage/v1/b/"+url.PathEscape(b), nil, nil, false)
		ob.Exists = res.code == 200
		pages, _, code, _ := s.list(b, "", "", 0, 50)
		if code == 200 {
			for _, p := range pages {
				for _, it := range p.Items {
					ob.Listed = append(ob.Listed, it.N)
				}
			}
			sort.Slice(ob.Listed, func(a, c int) bool { return bytes.Compare(ob.Listed[a], ob.Listed[c]) < 0 })
		} else if ob.Exists {
			ob.Listed = []j.B{j.S(fmt.Sprintf("!list failed with %d", code))}
		}
		for _, n := range s.names[b] {
			o := ObsObj{N: j.S(n)}
			mr := s.do("GET", s.URL+"/storage/v1/b/"+url.PathEscape(b)+"/o/"+url.PathEscape(n), nil, nil, false)
			if mr.code == 200 {
				var ao apiObject
				if json.Unmarshal(mr.body, &ao) == nil {
					o.Present = true
					o.View = viewOf(&ao)
				}
				cr := s.do("GET", s.URL+"/storage/v1/b/"+url.PathEscape(b)+"/o/"+url.PathEscape(n)+"?alt=media", map[string]string{"Accept-Encoding": "gzip"}, nil, false) // the stored bytes, not a transcoding of them
				if cr.code == 200 {
					o.Content = j.B(cr.body)
					o.MediaGen = atoi64(cr.header.Get("X-Goog-Generation"))
				} else {
					o.Content = j.S(fmt.Sprintf("!media GET failed with %d", cr.code))
				}
			} else if mr.code != 404 {
				o.Present = true
				o.Content = j.S(fmt.Sprintf("!metadata GET failed with %d", mr.code))
			}
			ob.Objs = append(ob.Objs, o)
		}
		obs.Buckets = append(obs.Buckets, ob)
	}
	s.last = obs
	return obs
}

// Run executes a program as trace tr and returns the recorded events (generations still raw).
func (s *Server) Run(tr int, prog []Op) []Op {
	out := []Op{{Ev: "Reset", Tr: tr}}
	hist := map[string][]int64{}
	var prev []byte
	for i := range prog {
		op := prog[i]
		op.Tr, op.I = tr, i+1
		op.Resp, op.Obs = nil, nil
		op.Srcs = append([]Src(nil), op.Srcs...)
		modelGen := op.Gen // a TLC-generated program names the model's generation here
		op.Gen = 0
		s.Exec(&op, hist, i+1)
		if op.Resp != nil && op.Resp.Aborted && strings.Contains(op.Resp.Raw, "Timeout") {
			// the request was never answered: the emulator is wedged (every later request on the same object would wait
			// for the client timeout too). The unanswered request is the last event of this trace.
			op.Obs = &Obs{}
			out = append(out, op)
			break
		}
		if op.Gen != 0 {
			key := string(op.B) + "\x00" + string(op.N)
			if op.Ev == "Copy" {
				key = string(op.Db) + "\x00" + string(op.Dn)
			}
			if op.Ev == "ResumablePut" {
				key = ""
			}
			hist[key] = append(hist[key], op.Gen)
			if modelGen != 0 {
				s.model[modelGen] = op.Gen
			}
		}
		op.Obs = s.Observe()
		if op.Ev == "LegacyFile" { // the generation/metageneration of a legacy file are what its first read reports
			op.Gen, op.Metagen, _ = s.curOf(string(op.B), string(op.N))
		}
		cur, _ := json.Marshal(op.Obs)
		if prev != nil && bytes.Equal(cur, prev) {
			op.Obs = &Obs{Same: true}
		}
		prev = cur
		out = append(out, op)
	}
	return out
}
