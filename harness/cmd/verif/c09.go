package main

import (
	"encoding/json"
	"fmt"
	"math/rand"
	"sync"
	"time"

	"verif/harness/internal/gcs"
	"verif/harness/internal/j"
	"verif/harness/internal/tlc"
)

func init() { checks["C09"] = checkC09 }

// insert restarts (clean stop or abandon-as-killed) and legacy files into a file-safe program
func withRestarts(r *rand.Rand, prog []gcs.Op) []gcs.Op {
	var out []gcs.Op
	shift := map[int]int{} // old 1-based index -> new 1-based index (for resumable references)
	openRef := map[int]bool{}
	nLegacy := 0
	for i, op := range prog {
		if op.Ev == "ResumablePut" {
			if !openRef[op.Ref] {
				continue // its session died in a restart
			}
			op.Ref = shift[op.Ref]
		}
		out = append(out, op)
		shift[i+1] = len(out)
		if op.Ev == "ResumableStart" {
			openRef[i+1] = true
		}
		x := r.Float64()
		switch {
		case x < 0.18:
			out = append(out, gcs.Op{Ev: "Restart", Kill: r.Intn(2) == 0})
			openRef = map[int]bool{}
		case x < 0.23:
			out = append(out, gcs.Op{Ev: "LegacyFile", B: gcsBuckets[0], N: j.S(fmt.Sprintf("legacy/%d.dat", nLegacy)), Content: j.S(fmt.Sprintf("old bytes %d", nLegacy))})
			nLegacy++
		}
	}
	return out
}

// C09 GCS: file store persists everything and is equivalent to the memory store.
func checkC09(c *Ctx) {
	c.rule = "cases = (a) request programs on the file store with a restart (new emulator instance on the same directory, after a clean stop or abandoning the old instance as after a kill) inserted at random request boundaries and at every boundary of TLC-enumerated histories of MC_GcsData (WithRestart), plus content files dropped into the directory without a sidecar; replies and the read-back after every request and restart validated by TLC against GcsData; (b) the same file-representable programs run on the memory store and the file store and compared event by event by TLC (GcsEquiv); distinct = distinct program text; non-trivial = at least two requests"
	r := rand.New(rand.NewSource(c.Seed))
	consts := map[string]string{"MaxDepth": "3", "MaxObjs": "2", "WithRestart": "TRUE"}
	if !c.Quick() {
		consts = map[string]string{"MaxDepth": "4", "MaxObjs": "2", "WithRestart": "TRUE"}
	}
	mc := cfg{Spec: "Spec", Constants: withDump(consts, false, "1"), Constraint: "Constr", View: "View", Invariants: []string{"InvGen"}, Properties: []string{"FailedIsNoop", "RestartLaw", "VersioningLaws"}}
	c.runModel("MC_GcsData", mc, 12, 30*time.Minute, false)
	// TLC-enumerated histories (without restarts), each replayed with a restart inserted at every request boundary
	dconsts := map[string]string{"MaxDepth": consts["MaxDepth"], "MaxObjs": "2", "WithRestart": "FALSE"}
	sk := "25"
	if !c.Quick() {
		sk = "40"
	}
	paths := c.dumpGcsPaths("MC_GcsData", cfg{Spec: "Spec", Constants: withDump(dconsts, true, sk), Constraint: "Constr", View: "View"}, 30*time.Minute, 8)
	concretiseGcs(paths)
	if c.Quick() {
		paths = sampleGcs(r, paths, 120)
	}
	var persist [][]gcs.Op
	for _, p := range paths {
		for k := 1; k <= len(p); k++ {
			v := append([]gcs.Op{}, p[:k]...)
			v = append(v, gcs.Op{Ev: "Restart", Kill: (k+len(p))%2 == 0})
			v = append(v, p[k:]...)
			persist = append(persist, v)
		}
	}
	c.Extra("tlc_transitions_replayed", len(persist))
	nRand := 40
	if !c.Quick() {
		nRand = 15000
	}
	prof := gcsProfile{fileSafe: true, n: 22, pCond: 0.15, wUpload: 4, wResum: 1.2, wPatch: 1.5, wDelete: 1.2, wRead: 1, wCompose: 0.6, wCopy: 0.6, wList: 0.6, maxResum: 20}
	var equiv [][]gcs.Op
	for i := 0; i < nRand; i++ {
		p := genGcsProgram(r, prof)
		equiv = append(equiv, p)
		persist = append(persist, withRestarts(r, p))
	}
	for _, p := range persist {
		c.AddEval(1)
		c.Nontrivial(describeGcs(p))
	}
	if len(persist) > 0 {
		c.Sample(map[string]interface{}{"source": "program with restarts (first requests)", "program": stripGcs(persist[len(persist)-1][:min(8, len(persist[len(persist)-1]))])})
	}
	c.gcsValidate("C09", []string{"file"}, persist, nil)

	// (b) equivalence of the two stores
	type diff struct {
		Tr, I int
		Ev    string
	}
	var mu sync.Mutex
	var diffs []diff
	var wg sync.WaitGroup
	sem := make(chan struct{}, 7)
	batch := 30
	compare := func(progs [][]gcs.Op, base int) ([]diff, error) {
		var files [2][]byte
		var ew sync.WaitGroup
		for e := range allStores {
			ew.Add(1)
			go func(e int) {
				defer ew.Done()
				for i, p := range progs {
					files[e] = append(files[e], encodeGcsTrace(runGcsProgram(allStores[e], base+i+1, p))...)
				}
			}(e)
		}
		ew.Wait()
		res, err := tlc.Run(tlc.Options{Module: "GcsEquiv", Cfg: "GcsEquiv.cfg", HeapGB: 3, Timeout: 20 * time.Minute, Files: map[string][]byte{"a.ndjson": files[0], "b.ndjson": files[1]}})
		if err != nil || res.ExitCode != 0 {
			return nil, fmt.Errorf("GcsEquiv: %v %s", err, res.Tail(8))
		}
		var out []diff
		for _, p := range res.Tag("DIFFER") {
			var d diff
			if json.Unmarshal(p[0], &d) == nil {
				out = append(out, d)
			}
		}
		return out, nil
	}
	for lo := 0; lo < len(equiv); lo += batch {
		hi := min(lo+batch, len(equiv))
		wg.Add(1)
		go func(lo, hi int) {
			defer wg.Done()
			sem <- struct{}{}
			defer func() { <-sem }()
			ds, err := compare(equiv[lo:hi], lo)
			if err != nil {
				c.Inconclusive("%v", err)
				return
			}
			c.AddTraces(int64(2*(hi-lo)), 0)
			mu.Lock()
			diffs = append(diffs, ds...)
			mu.Unlock()
		}(lo, hi)
	}
	wg.Wait()
	seen := map[int]bool{}
	for _, d := range diffs {
		if seen[d.Tr] || len(seen) >= 20 {
			continue
		}
		seen[d.Tr] = true
		prog := equiv[d.Tr-1]
		ds, err := compare([][]gcs.Op{prog}, 0)
		if err != nil {
			c.Inconclusive("%v", err)
			continue
		}
		if len(ds) == 0 {
			c.Unreproduced("store difference in program %d step %d did not reproduce", d.Tr, d.I)
			continue
		}
		c.Violation("", fmt.Sprintf("C09: memory store and file store disagree at step %d (%s)", ds[0].I, ds[0].Ev),
			map[string]interface{}{"kind": "gcs-equiv", "program": stripGcs(prog), "failing_step": ds[0].I})
	}
	for _, p := range equiv {
		c.AddEval(1)
		c.Nontrivial("equiv:" + describeGcs(p))
	}
	c.Assume("TLC, the Json community module and the harness's HTTP encoder/decoder are trusted; restarts are new emulator instances on the same directory in one process (a real process kill/restart cycle is not part of this check); object names are file-representable (no name is a directory of another, no empty/dot segments, no .emumeta suffix)")
	c.Assume("generation numbers are compared through their ranks; timestamps are not recorded")
}

func init() {
	replayers["gcs-equiv"] = func(raw json.RawMessage) (bool, string) {
		var cs struct {
			Program []gcs.Op `json:"program"`
		}
		if err := json.Unmarshal(raw, &cs); err != nil {
			return false, "inconclusive: " + err.Error()
		}
		var files [2][]byte
		for e := range allStores {
			files[e] = encodeGcsTrace(runGcsProgram(allStores[e], 1, cs.Program))
		}
		res, err := tlc.Run(tlc.Options{Module: "GcsEquiv", Cfg: "GcsEquiv.cfg", HeapGB: 2, Files: map[string][]byte{"a.ndjson": files[0], "b.ndjson": files[1]}})
		if err != nil || res.ExitCode != 0 {
			return false, fmt.Sprintf("inconclusive: %v", err)
		}
		if ds := res.Tag("DIFFER"); len(ds) > 0 {
			return true, "stores disagree: " + string(ds[0][0])
		}
		return false, "the two stores agree on every event"
	}
}
