package main

import (
	"encoding/json"
	"os"
	"time"

	"verif/harness/internal/j"
	"verif/harness/internal/lockmap"
)

// dbg <schedules.json> <out.ndjson>: execute the schedules and write the runs
func main() {
	var scheds [][]lockmap.Step
	b, _ := os.ReadFile(os.Args[1])
	if err := json.Unmarshal(b, &scheds); err != nil {
		panic(err)
	}
	var out []byte
	for i, s := range scheds {
		run := lockmap.Execute(i+1, s, []string{"p1", "p2", "p3"}, 25*time.Millisecond, 0)
		for _, p := range []string{"p1", "p2", "p3"} {
			if run.Procs[p] == nil {
				run.Procs[p] = []lockmap.Event{}
			}
		}
		out = append(out, j.Line(run)...)
	}
	os.WriteFile(os.Args[2], out, 0644)
}
