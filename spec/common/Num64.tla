------------------------------- MODULE Num64 -------------------------------
(***************************************************************************)
(* Signed 64-bit quantities (timestamps in microseconds, GC cut-offs).     *)
(* TLC integers are 32-bit Java ints, so a number is a 4-tuple             *)
(*    <<neg, a, b, c>>  =  (-1)^neg * (a*10^12 + b*10^6 + c)               *)
(* with 0 <= b, c < 10^6, 0 <= a <= 9223372, and neg = 0 for zero.         *)
(***************************************************************************)
EXTENDS Integers, Sequences

Base == 1000000

N64(neg, a, b, c) == <<neg, a, b, c>>
Zero64 == <<0, 0, 0, 0>>
\* math.MaxInt64 - math.MaxInt64 % 1000 = 9223372036854775000
MaxValidTs == <<0, 9223372, 36854, 775000>>
MaxInt64   == <<0, 9223372, 36854, 775807>>
ServerTimeTs == <<1, 0, 0, 1>>         \* -1

IsNeg(x)  == x[1] = 1
IsZero64(x) == x[2] = 0 /\ x[3] = 0 /\ x[4] = 0

\* magnitude compare: 0 less, 1 equal, 2 greater
MagCmp(x, y) ==
  IF x[2] # y[2] THEN (IF x[2] < y[2] THEN 0 ELSE 2)
  ELSE IF x[3] # y[3] THEN (IF x[3] < y[3] THEN 0 ELSE 2)
  ELSE IF x[4] # y[4] THEN (IF x[4] < y[4] THEN 0 ELSE 2)
  ELSE 1

Cmp64(x, y) ==
  IF x[1] # y[1] THEN (IF x[1] = 1 THEN 0 ELSE 2)
  ELSE IF x[1] = 0 THEN MagCmp(x, y) ELSE MagCmp(y, x)

LT64(x, y) == Cmp64(x, y) = 0
LE64(x, y) == Cmp64(x, y) # 2
GT64(x, y) == Cmp64(x, y) = 2
GE64(x, y) == Cmp64(x, y) # 0
Max64(x, y) == IF GT64(x, y) THEN x ELSE y

\* whole number of milliseconds?  (value % 1000 = 0; sign-independent)
IsMilli(x) == x[4] % 1000 = 0

\* Go: now.TruncateToMilliseconds() for a non-negative clock value
TruncMilli(x) == <<x[1], x[2], x[3], x[4] - (x[4] % 1000)>>

Norm(neg, a, b, c) == IF a = 0 /\ b = 0 /\ c = 0 THEN Zero64 ELSE <<neg, a, b, c>>

MagAdd(x, y) ==
  LET c  == x[4] + y[4]
      cc == c \div Base
      b  == x[3] + y[3] + cc
      bc == b \div Base
  IN  <<0, x[2] + y[2] + bc, b % Base, c % Base>>

\* |x| - |y| assuming |x| >= |y|
MagSub(x, y) ==
  LET c  == x[4] - y[4]
      cb == IF c < 0 THEN 1 ELSE 0
      b  == x[3] - y[3] - cb
      bb == IF b < 0 THEN 1 ELSE 0
  IN  <<0, x[2] - y[2] - bb, IF b < 0 THEN b + Base ELSE b, IF c < 0 THEN c + Base ELSE c>>

Neg64(x) == IF IsZero64(x) THEN x ELSE <<1 - x[1], x[2], x[3], x[4]>>

Add64(x, y) ==
  IF x[1] = y[1] THEN LET m == MagAdd(x, y) IN Norm(x[1], m[2], m[3], m[4])
  ELSE IF MagCmp(x, y) # 0
       THEN LET m == MagSub(x, y) IN Norm(x[1], m[2], m[3], m[4])
       ELSE LET m == MagSub(y, x) IN Norm(y[1], m[2], m[3], m[4])

Sub64(x, y) == Add64(x, Neg64(y))

\* small naturals to Num64 (n < 10^6)
Small64(n) == <<0, 0, 0, n>>
\* n milliseconds (n < 10^6) as microseconds
Millis64(n) == <<0, 0, (n * 1000) \div Base, (n * 1000) % Base>>
=============================================================================
