#!/usr/bin/env python3
"""Builds seeded/RESULTS.md (the table DESIGN.md section 14.7 refers to) from seeded/*/meta.json and seeded/RESULTS.tsv
(one line per run: mutant, check, tier, exit code -- appended from the output of scripts/run-mutant.sh)."""
import json, os, collections
root = '/verif/seeded'
runs = collections.defaultdict(list)
for l in open(os.path.join(root, 'RESULTS.tsv')):
    m, chk, tier, code = l.split()[:4]
    runs[m].append((chk, tier, code))
notes = json.load(open(os.path.join(root, 'notes.json')))
out = ['| change | what it does | needs, to manifest | caught by (quick tier) | not caught by | how the checks had to grow |', '|---|---|---|---|---|---|']
for m in sorted(d for d in os.listdir(root) if os.path.isdir(os.path.join(root, d))):
    meta = json.load(open(os.path.join(root, m, 'meta.json')))
    caught = sorted({c for c, t, code in runs[m] if code == '1'})
    missed = sorted({c for c, t, code in runs[m] if code == '0'} - set(caught))
    bad = sorted({c for c, t, code in runs[m] if code not in ('0', '1')})
    short = lambda s, n: (s[:n] + '…') if len(s) > n else s
    out.append('| %s | %s | %s | %s | %s | %s |' % (m, short(meta['summary'].replace('|', '/').replace('\n', ' '), 230), short(meta['needs'].replace('|', '/').replace('\n', ' '), 200),
               ', '.join(caught) or '—', ', '.join(missed + ['%s (exit 2)' % b for b in bad]) or '—', notes.get(m, '')))
open(os.path.join(root, 'RESULTS.md'), 'w').write('\n'.join(out) + '\n')
print(len(out) - 2, 'changes;', sum(1 for l in out[2:] if '| — |' in l.split('|')[4:5][0:1] or l.split('|')[4].strip() == '—'), 'caught by no check')
