package main

import (
	"bytes"
	"encoding/json"
	"fmt"
	"math/rand"
	"regexp"
	"strconv"
	"time"
	"verif/harness/internal/j"

	"verif/harness/internal/gcs"
	"verif/harness/internal/tlc"
)

// dumpGcsPaths runs a GCS model with DumpEdges and decodes the request histories it printed.
func (c *Ctx) dumpGcsPaths(module string, cf cfg, timeout time.Duration, workers int) [][]gcs.Op {
	res, err := tlc.Run(tlc.Options{Module: module, Cfg: cf.Text(), Workers: workers, Timeout: timeout, Seed: c.Seed + 1})
	if err != nil || res.ExitCode != 0 {
		c.Inconclusive("TLC %s (edge dump): %v exit=%d %s", module, err, res.ExitCode, res.Tail(10))
		return nil
	}
	var out [][]gcs.Op
	for _, p := range res.Tag("PATH") {
		var ops []gcs.Op
		if err := json.Unmarshal(p[0], &ops); err != nil {
			c.Inconclusive("cannot decode a TLC path of %s: %v", module, err)
			return out
		}
		out = append(out, ops)
	}
	return out
}

// concretiseGcs marks the model's generation numbers in conditions as such (they are translated through the
// model->real table while replaying) and replaces the model's MD5 tokens by real ones.
func concretiseGcs(progs [][]gcs.Op) {
	mark := func(c *gcs.Cond, isGen bool) {
		if c.K == "val" {
			if isGen {
				c.Sym = "model"
			} else {
				c.Sym = "lit"
			}
		}
	}
	for _, p := range progs {
		for i := range p {
			mark(&p[i].Conds.Gm, true)
			mark(&p[i].Conds.Gnm, true)
			mark(&p[i].Conds.Mm, false)
			mark(&p[i].Conds.Mnm, false)
			for k := range p[i].Srcs {
				mark(&p[i].Srcs[k].Gm, true)
			}
			if bytes.HasPrefix(p[i].Md5full, []byte("md5")) {
				p[i].Md5full = md5tok(p[i].Md5full[3:])
			}
			if p[i].Ev == "Upload" && p[i].Proto == "media" {
				// a media upload can carry only a content type
				var keep []gcs.KV
				for _, a := range p[i].Attrs {
					if a.K == "ct" {
						keep = append(keep, a)
					}
				}
				p[i].Attrs = keep
			}
		}
	}
}

type gcsFamily struct {
	Label    string
	Models   []gcsModel
	Gen      func(r *rand.Rand) []gcs.Op
	NRandQ   int
	NRandT   int
	Stores   []string
	Classify func(store string, prog []gcs.Op, rej btReject, ev *gcs.Op) string
}

type gcsModel struct {
	Module     string
	Quick      map[string]string
	Thorough   map[string]string
	SampleQ    string
	SampleT    string
	MaxReplayQ int
	Invariants []string
	Properties []string
}

func sampleGcs(r *rand.Rand, progs [][]gcs.Op, n int) [][]gcs.Op {
	if n <= 0 || len(progs) <= n {
		return progs
	}
	idx := r.Perm(len(progs))[:n]
	out := make([][]gcs.Op, 0, n)
	for _, i := range idx {
		out = append(out, progs[i])
	}
	return out
}

func (c *Ctx) runGcsFamily(f gcsFamily) {
	r := rand.New(rand.NewSource(c.Seed))
	var all [][]gcs.Op
	for _, m := range f.Models {
		consts, sk, maxReplay := m.Quick, m.SampleQ, m.MaxReplayQ
		if !c.Quick() {
			consts, sk, maxReplay = m.Thorough, m.SampleT, 0
		}
		mc := cfg{Spec: "Spec", Constants: withDump(consts, false, "1"), Constraint: "Constr", View: "View", Invariants: m.Invariants, Properties: m.Properties}
		c.runModel(m.Module, mc, 12, 30*time.Minute, c.Quick())
		dump := cfg{Spec: "Spec", Constants: withDump(consts, true, sk), Constraint: "Constr", View: "View"}
		paths := c.dumpGcsPaths(m.Module, dump, 30*time.Minute, 8)
		concretiseGcs(paths)
		paths = sampleGcs(r, paths, maxReplay)
		c.Extra("tlc_transitions_replayed_"+m.Module, len(paths))
		if len(paths) > 0 {
			c.Sample(map[string]interface{}{"source": "TLC transition with its BFS history (" + m.Module + ")", "program": stripGcs(paths[len(paths)/2])})
		}
		all = append(all, paths...)
	}
	nRand := f.NRandQ
	if !c.Quick() {
		nRand = f.NRandT
	}
	for i := 0; i < nRand && f.Gen != nil; i++ {
		p := f.Gen(r)
		if i == 0 {
			c.Sample(map[string]interface{}{"source": "seeded random program (first requests)", "program": stripGcs(p[:min(6, len(p))])})
		}
		all = append(all, p)
	}
	for _, p := range all {
		c.AddEval(1)
		if len(p) > 1 {
			c.Nontrivial(describeGcs(p))
		}
	}
	stores := f.Stores
	if stores == nil {
		stores = allStores
	}
	c.Extra("stores", stores)
	c.gcsValidate(f.Label, stores, all, f.Classify)
	c.Assume("TLC, the Json community module and the harness's HTTP encoder/decoder are trusted; the harness holds no oracle logic")
	c.Assume("requests go over real HTTP on loopback to an in-process emulator; every request is followed by a read-back (bucket, listing, metadata and media of every object name used so far); generation numbers are replaced by their ranks (an order isomorphism)")
	c.Assume("byte-level codecs (gzip, multipart framing, URL escaping, MD5, JSON) are exercised as harness-level encodings of one abstract action, not modelled")
}

var shadowName = regexp.MustCompile(`(^|/)b/[^/]+/o(/|$)`)

// genShadowProgram: an object whose name contains "/b/<other bucket>/o/<name>", with or without an object of that
// name in the other bucket, read back through the three URL forms.
func genShadowProgram(r *rand.Rand) []gcs.Op {
	g := ggen{r: r, names: []string{"d/b/bkt-2/o/y", "storage/v1/b/bkt-2/o/y", "y", "d/b/bkt-2/o"}}
	prog := []gcs.Op{{Ev: "CreateBucket", B: gcsBuckets[0]}, {Ev: "CreateBucket", B: gcsBuckets[1]}}
	up := func(b j.B, n string) {
		op := g.upload(b, j.S(n), 0)
		op.Gzip = false
		prog = append(prog, op)
	}
	shadow := g.names[g.pick(2)]
	up(gcsBuckets[0], shadow)
	if g.chance(0.6) {
		up(gcsBuckets[1], "y")
	}
	forms := []string{"api", "download", "public"}
	r.Shuffle(3, func(a, b int) { forms[a], forms[b] = forms[b], forms[a] })
	for _, f := range forms {
		prog = append(prog, gcs.Op{Ev: "GetMedia", B: gcsBuckets[0], N: j.S(shadow), Form: f, Slash: g.chance(0.5)})
	}
	prog = append(prog, gcs.Op{Ev: "GetMeta", B: gcsBuckets[0], N: j.S(shadow)}, gcs.Op{Ev: "Delete", B: gcsBuckets[0], N: j.S(shadow), Conds: gcs.NoConds()},
		gcs.Op{Ev: "GetMedia", B: gcsBuckets[1], N: j.S("y"), Form: "public"}, gcs.Op{Ev: "GetMedia", B: gcsBuckets[0], N: j.S(shadow), Form: forms[0]})
	return prog
}

// genLruProgram: more resumable sessions than the server remembers (1024, least recently used first out): a session that
// was started early and never touched again is gone once the 1025th is started; one that was queried in between survives
// and can still be completed.
func genLruProgram(r *rand.Rand) []gcs.Op {
	g := ggen{r: r, names: []string{"lru-a", "lru-b", "lru-fill"}}
	b := gcsBuckets[0]
	prog := []gcs.Op{{Ev: "CreateBucket", B: b}}
	pa, pb := g.payload(40), g.payload(40)
	for len(pa) < 2 {
		pa = g.payload(40)
	}
	for len(pb) < 2 {
		pb = g.payload(40)
	}
	start := func(n string) int {
		prog = append(prog, gcs.Op{Ev: "ResumableStart", B: b, N: j.S(n), Decl: "none", Conds: gcs.NoConds()})
		return len(prog) - 1
	}
	put := func(ref, lo, total int, data []byte, tok j.B) {
		prog = append(prog, gcs.Op{Ev: "ResumablePut", Ref: ref, Lo: lo, Total: total, Data: j.B(data), Md5full: tok, Method: "PUT"})
	}
	early := g.pick(3) // fillers started before the two sessions of interest
	for i := 0; i < early; i++ {
		start("lru-fill")
	}
	sa := start("lru-a")
	put(sa, 0, -1, pa[:1], md5tok(pa))
	sb := start("lru-b")
	put(sb, 0, -1, pb[:1], md5tok(pb))
	var fill []int
	for len(prog) < 1+early+4+(1024-2-early) { // exactly 1024 live sessions
		fill = append(fill, start("lru-fill"))
	}
	keep, lose, pk, pl := sa, sb, pa, pb
	if g.chance(0.5) {
		keep, lose, pk, pl = sb, sa, pb, pa
	}
	if g.chance(0.5) {
		put(keep, -1, -1, nil, md5tok(pk)) // a status query makes it the most recently used
	} else {
		put(keep, 5, -1, pk[1:], md5tok(pk)) // so does a refused chunk (a gap)
	}
	for i := 0; i < early+1; i++ { // the early fillers go first, then the untouched session
		start("lru-fill")
	}
	put(lose, 1, len(pl), pl[1:], md5tok(pl)) // forgotten: an error, no object
	put(keep, 1, len(pk), pk[1:], md5tok(pk)) // still known: completes
	prog = append(prog, gcs.Op{Ev: "GetMedia", B: b, N: j.S("lru-a"), Form: "api"}, gcs.Op{Ev: "GetMedia", B: b, N: j.S("lru-b"), Form: "api"})
	// the next start pushes out the oldest filler; the one after it is still there
	if len(fill) > 1 {
		start("lru-fill")
		put(fill[0], -1, -1, nil, md5tok(nil))
		put(fill[1], -1, -1, nil, md5tok(nil))
	}
	return prog
}

var dataModel = gcsModel{Module: "MC_GcsData",
	Quick: map[string]string{"MaxDepth": "3", "MaxObjs": "3", "WithRestart": "FALSE"}, Thorough: map[string]string{"MaxDepth": "4", "MaxObjs": "3", "WithRestart": "FALSE"},
	SampleQ: "40", SampleT: "60", MaxReplayQ: 700,
	Invariants: []string{"InvGen"}, Properties: []string{"FailedIsNoop", "VersioningLaws", "Frame", "ComposeLaw", "CopyLaw", "UploadLaw"}}

func init() {
	checks["C02"] = func(c *Ctx) {
		c.rule = "cases = request histories over buckets/objects: TLC-enumerated transitions of MC_GcsData (uploads, overwrites, deletes, reads...) and of MC_GcsResumable (every honest client step: fresh, re-sent and overlapping chunks, status queries, gaps) with BFS history, and seeded random programs (three upload protocols, gzip request bodies, three download URL forms, adversarial names, objects labelled contentEncoding gzip read with and without Accept-Encoding: gzip, and one program that opens more resumable sessions than the server keeps (1024, least recently used evicted)); executed over HTTP on both stores; replies and read-back validated step by step by TLC against GcsData; distinct = distinct history text; non-trivial = at least two requests"
		c.runGcsFamily(gcsFamily{Label: "C02",
			Models: []gcsModel{dataModel,
				{Module: "MC_GcsResumable", Quick: map[string]string{"PayloadLen": "3", "MaxPuts": "4"}, Thorough: map[string]string{"PayloadLen": "4", "MaxPuts": "5"},
					SampleQ: "1", SampleT: "1", Invariants: []string{"InvGen", "InvPrefix", "InvComplete"}, Properties: []string{"FailedIsNoop"}}},
			Gen: func(r *rand.Rand) []gcs.Op {
				return genGcsProgram(r, gcsProfile{fileSafe: true, n: 22, pCond: 0.1, wUpload: 4, wResum: 2, wPatch: 0.5, wDelete: 1.5, wRead: 3, wCompose: 0.3, wCopy: 0.3, wList: 0.4, maxResum: 40, wBatch: 0.5})
			}, NRandQ: 60, NRandT: 18000})
		// memory store only: names that are not representable as files, larger payloads
		r := rand.New(rand.NewSource(c.Seed + 99))
		var progs [][]gcs.Op
		n := 30
		if !c.Quick() {
			n = 3000
		}
		for i := 0; i < n; i++ {
			progs = append(progs, genGcsProgram(r, gcsProfile{fileSafe: false, n: 18, pCond: 0.1, wUpload: 4, wResum: 2, wPatch: 0.3, wDelete: 1.5, wRead: 3, wList: 0.3, maxResum: 4096}))
		}
		for _, p := range progs {
			c.AddEval(1)
			c.Nontrivial(describeGcs(p))
		}
		c.gcsValidate("C02", []string{"mem"}, progs, nil)
		// more pending resumable sessions than the server keeps (1024, least recently used evicted first)
		progs = nil
		for i := 0; i < map[bool]int{true: 1, false: 6}[c.Quick()]; i++ {
			progs = append(progs, genLruProgram(r))
		}
		for _, p := range progs {
			c.AddEval(1)
			c.Nontrivial("resumable-session eviction: " + strconv.Itoa(len(p)) + " requests")
		}
		c.gcsValidate("C02", []string{"mem"}, progs, nil)
		// names that contain something shaped like an API path: served correctly through the JSON and /download
		// forms; through the public form the unanchored URL patterns take them for another bucket (known finding)
		progs = nil
		for i := 0; i < 6; i++ {
			progs = append(progs, genShadowProgram(r))
		}
		for _, p := range progs {
			c.AddEval(1)
			c.Nontrivial(describeGcs(p))
		}
		c.gcsValidate("C02", allStores, progs, func(store string, prog []gcs.Op, rej btReject, ev *gcs.Op) string {
			if ev != nil && ev.Ev == "GetMedia" && ev.Form == "public" && shadowName.Match(ev.N) {
				return "G10-public-url-shadow"
			}
			return ""
		})
	}
	checks["C04"] = func(c *Ctx) {
		c.rule = "cases = conditioned requests: the complete table of MC_GcsConds (four parameters x unset/equal/different (+0, +unparsable) x object state absent,(g1,m1),(g1,m2),(g2,m1) x upload-media/upload-multipart/patch/delete/compose-destination/compose-source), every row printed by TLC with the history that reaches its object state and executed over HTTP on both stores, plus seeded random histories with random condition sets (including resumable uploads whose conditions are captured at start); after every request the read-back must equal the model state (unchanged on failure); distinct = distinct history text; non-trivial = history with a conditioned request"
		c.exhaustive = !c.Quick()
		c.Extra("exhaustive_scope", "the precondition table of MC_GcsConds: every row is model-checked (CondLaw) in both tiers; on the real emulator every row is executed in the thorough tier and one in five (seeded) in the quick tier; random histories are sampled")
		c.runGcsFamily(gcsFamily{Label: "C04",
			Models: []gcsModel{{Module: "MC_GcsConds", Quick: map[string]string{"WithBad": "TRUE"}, Thorough: map[string]string{"WithBad": "TRUE"},
				SampleQ: "5", SampleT: "1", Invariants: []string{"InvGen"}, Properties: []string{"FailedIsNoop", "CondLaw"}}},
			Gen: func(r *rand.Rand) []gcs.Op {
				switch r.Intn(8) {
				case 0:
					return genStalePatchProgram(r)
				case 1:
					return genComposeCondProgram(r)
				}
				return genGcsProgram(r, gcsProfile{fileSafe: true, n: 24, pCond: 0.6, wUpload: 3, wResum: 1, wPatch: 2, wDelete: 1.5, wRead: 0.5, wCompose: 1, wCopy: 0.2, fewNames: 3, maxResum: 20, wBatch: 0.8})
			}, NRandQ: 50, NRandT: 18000})
	}
	checks["C10"] = func(c *Ctx) {
		c.rule = "cases = long request histories on few names (writes by every protocol, compose, copy, patches, reads, failures, deletes and re-creations, back-to-back with no delay): TLC-enumerated transitions of MC_GcsData (VersioningLaws as an action property) with BFS history, and seeded random histories of 80-200 requests; executed over HTTP on both stores; generation/metageneration from response headers, upload replies, metadata GETs, media GETs and listings validated step by step by TLC; distinct = distinct history text; non-trivial = at least two requests"
		c.runGcsFamily(gcsFamily{Label: "C10",
			Models: []gcsModel{dataModel},
			Gen: func(r *rand.Rand) []gcs.Op {
				return genGcsProgram(r, gcsProfile{fileSafe: true, n: 80 + r.Intn(60), pCond: 0.15, wUpload: 3, wResum: 0.7, wPatch: 2.5, wDelete: 1.2, wRead: 1, wCompose: 0.6, wCopy: 0.6, wList: 0.4, fewNames: 3, maxResum: 12, wBatch: 0.6})
			}, NRandQ: 16, NRandT: 7000})
		c.Assume("strict growth of generations drawn from the wall clock between two writes in the same clock tick can only be sampled; the law itself is checked on every sampled step")
	}
	checks["C15"] = func(c *Ctx) {
		c.rule = "cases = request histories with compose and copy requests: TLC-enumerated transitions of MC_GcsData (source lists of 0..3 with repeats, destination among sources, missing sources, source generation match; copies within/across buckets and onto itself; ComposeLaw/CopyLaw as action properties) with BFS history, and seeded random programs (0..33 sources, adversarial destination names, a patch of the destination after every copy); executed over HTTP on both stores; replies and the read-back of every object validated by TLC; distinct = distinct history text; non-trivial = at least two requests"
		c.runGcsFamily(gcsFamily{Label: "C15",
			Models: []gcsModel{dataModel},
			Gen: func(r *rand.Rand) []gcs.Op {
				if r.Intn(3) == 0 {
					return genComposeChain(r)
				}
				return genGcsProgram(r, gcsProfile{fileSafe: true, n: 26, pCond: 0.1, wUpload: 3, wResum: 0.3, wPatch: 0.7, wDelete: 0.7, wRead: 0.5, wCompose: 3, wCopy: 2.5, wList: 0.2, maxResum: 12})
			}, NRandQ: 60, NRandT: 18000})
	}
}

// genComposeChain: tiny objects composed and copied into each other again and again over five names: composed
// objects become sources (often after the same first source), objects are composed onto themselves and copied onto
// their own sources -- histories in which a result that shares storage with one of its sources gets corrupted later
func genComposeChain(r *rand.Rand) []gcs.Op {
	names := []string{"a", "b.txt", "d/x", "e", "f g"}
	g := ggen{r: r, names: names}
	b := gcsBuckets[0]
	prog := []gcs.Op{{Ev: "CreateBucket", B: b}}
	tiny := func() j.B {
		n := 1 + g.pick(12)
		out := make(j.B, n)
		for i := range out {
			out[i] = byte('A' + g.pick(26))
		}
		return out
	}
	for _, n := range names[:2+g.pick(2)] {
		prog = append(prog, gcs.Op{Ev: "Upload", B: b, N: j.S(n), Proto: []string{"media", "multipart"}[g.pick(2)], Content: tiny(), Decl: "none", Attrs: []gcs.KV{{K: "ct", V: j.S("text/plain")}}, Conds: gcs.NoConds()})
	}
	first := names[g.pick(2)]
	for len(prog) < 22 {
		switch x := g.pick(10); {
		case x < 6:
			op := gcs.Op{Ev: "Compose", B: b, N: j.S(names[g.pick(len(names))]), Attrs: []gcs.KV{{K: "ct", V: j.S("text/plain")}}, Conds: gcs.NoConds()}
			for i, ns := 0, 2+g.pick(2); i < ns; i++ {
				n := names[g.pick(len(names))]
				if i == 0 && g.chance(0.6) {
					n = first
				}
				op.Srcs = append(op.Srcs, gcs.Src{N: j.S(n), Gm: gcs.Unset()})
			}
			prog = append(prog, op)
		case x < 8:
			prog = append(prog, gcs.Op{Ev: "Copy", B: b, N: j.S(names[g.pick(len(names))]), Db: b, Dn: j.S(names[g.pick(len(names))])})
		case x < 9:
			prog = append(prog, gcs.Op{Ev: "Upload", B: b, N: j.S(names[g.pick(len(names))]), Proto: "media", Content: tiny(), Decl: "none", Attrs: []gcs.KV{{K: "ct", V: j.S("text/plain")}}, Conds: gcs.NoConds()})
		default:
			prog = append(prog, gcs.Op{Ev: "GetMedia", B: b, N: j.S(names[g.pick(len(names))]), Form: "api"})
		}
	}
	return prog
}

// genStalePatchProgram: an object patched a few times (metageneration 3 or 4), then patches whose BODY carries a whole,
// stale object resource (generation 1, metageneration 1, ...) together with a precondition on the metageneration or
// generation: the condition is judged against the stored object, never against what the body says.
func genStalePatchProgram(r *rand.Rand) []gcs.Op {
	g := ggen{r: r, names: []string{"a.txt"}}
	b, n := gcsBuckets[0], j.S("a.txt")
	nc := gcs.NoConds()
	prog := []gcs.Op{{Ev: "CreateBucket", B: b},
		{Ev: "Upload", B: b, N: n, Proto: "media", Content: j.S("v1"), Decl: "none", Attrs: []gcs.KV{{K: "ct", V: j.S("text/plain")}}, Conds: nc}}
	for i := 0; i < 2+g.pick(2); i++ {
		prog = append(prog, gcs.Op{Ev: "Patch", B: b, N: n, Meta: []gcs.KVB{{K: j.S("k"), V: j.S(fmt.Sprint(i))}}, Conds: nc})
	}
	cond := func(which string, c gcs.Cond) gcs.Conds {
		x := gcs.NoConds()
		switch which {
		case "mm":
			x.Mm = c
		case "mnm":
			x.Mnm = c
		case "gm":
			x.Gm = c
		default:
			x.Gnm = c
		}
		return x
	}
	cases := []gcs.Conds{cond("mm", gcs.Cond{K: "val", Sym: "cur"}), cond("mm", gcs.Cond{K: "val", Sym: "lit", V: 1}), cond("mnm", gcs.Cond{K: "val", Sym: "lit", V: 1}),
		cond("mnm", gcs.Cond{K: "val", Sym: "cur"}), cond("gm", gcs.Cond{K: "val", Sym: "cur"}), cond("gnm", gcs.Cond{K: "val", Sym: "cur"})}
	r.Shuffle(len(cases), func(a, c int) { cases[a], cases[c] = cases[c], cases[a] })
	for i, cs := range cases {
		prog = append(prog, gcs.Op{Ev: "Patch", B: b, N: n, Meta: []gcs.KVB{{K: j.S("s"), V: j.S(fmt.Sprint(i))}}, Conds: cs, Junk: true})
	}
	return prog
}

// genComposeCondProgram: composes whose source list names one object several times with different source-level
// preconditions (none / current generation / an earlier generation / another generation), in every order: every entry's
// condition counts, and a compose that fails one of them changes nothing.
func genComposeCondProgram(r *rand.Rand) []gcs.Op {
	b := gcsBuckets[0]
	nc := gcs.NoConds()
	up := func(n, content string) gcs.Op {
		return gcs.Op{Ev: "Upload", B: b, N: j.S(n), Proto: "media", Content: j.S(content), Decl: "none", Attrs: []gcs.KV{{K: "ct", V: j.S("text/plain")}}, Conds: nc}
	}
	prog := []gcs.Op{{Ev: "CreateBucket", B: b}, up("a.txt", "A1"), up("b.txt", "B1"), up("a.txt", "A2"), up("dst", "D0")}
	conds := []gcs.Cond{gcs.Unset(), {K: "val", Sym: "cur"}, {K: "val", Sym: "prev"}, {K: "val", Sym: "other"}}
	for i := 0; i < 8; i++ {
		op := gcs.Op{Ev: "Compose", B: b, N: j.S("dst"), Attrs: []gcs.KV{{K: "ct", V: j.S("text/plain")}}, Conds: nc}
		first := []string{"a.txt", "b.txt"}[r.Intn(2)]
		op.Srcs = append(op.Srcs, gcs.Src{N: j.S(first), Gm: conds[r.Intn(2)]}) // the first occurrence passes
		if r.Intn(3) == 0 {
			op.Srcs = append(op.Srcs, gcs.Src{N: j.S("b.txt"), Gm: gcs.Unset()})
		}
		op.Srcs = append(op.Srcs, gcs.Src{N: j.S(first), Gm: conds[r.Intn(len(conds))]}) // a later occurrence of the same object: any condition
		prog = append(prog, op)
	}
	return prog
}
