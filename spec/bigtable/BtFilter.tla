------------------------------ MODULE BtFilter ------------------------------
(***************************************************************************)
(* Semantics of Bigtable row filters (C05, C12).                           *)
(*                                                                         *)
(* A row is presented to a filter as an ORDERED CELL LIST: a sequence of   *)
(* [f, q, ts, v, lab] in family order (as the unfiltered read presents     *)
(* them), qualifiers ascending, timestamps descending.  lab is a sequence  *)
(* of labels (byte strings).                                               *)
(*                                                                         *)
(* Eval(flt, cells, key) is a SET of outcomes [err, cells, amb]; it has    *)
(* more than one member only through row_sample (each row wholly or not).  *)
(* err = TRUE: evaluation reached an invalid filter => InvalidArgument.    *)
(* amb = TRUE: the outcome is not determined by the documented semantics:  *)
(* an order-dependent filter (a cell limit or offset) dropped cells of a   *)
(* row in which an interleave had produced cells that differ only in label *)
(* or value under one (family, qualifier, timestamp) -- the order among    *)
(* those is unspecified (the emulator uses an unstable sort), so which of  *)
(* them survives is too.  Consumers accept any result for such a row.      *)
(*                                                                         *)
(* Filter records (field k):                                               *)
(*  pass b | block b | keyre re | famre re | qualre re | valre re          *)
(*  colrange f sk s ek e | valrange sk s ek e   (sk,ek: "none","open",     *)
(*  "closed") | tsrange t0 t1 | rowlimit n | rowoffset n | collimit n        *)
(*  strip | label l | chain fs | inter fs | cond p tb fb (branches may be   *)
(*  [k |-> "nil"]) | sample (valid p) | badsample (p outside (0,1))        *)
(***************************************************************************)
EXTENDS Bytes, Num64, Regex, Integers, Sequences, FiniteSets

R(e, cs) == [err |-> e, cells |-> cs, amb |-> FALSE]
R3(e, cs, a) == [err |-> e, cells |-> cs, amb |-> a]
\* two cells of one column with the same timestamp that are not the same cell
TieAmb(cells) == \E i \in 1..Len(cells) : \E j \in (i+1)..Len(cells) :
                    cells[i].f = cells[j].f /\ cells[i].q = cells[j].q /\ cells[i].ts = cells[j].ts /\ cells[i] # cells[j]
\* the result of an order-dependent selection
Sel(cells, kept) == R3(FALSE, kept, kept # cells /\ TieAmb(cells))

InLo(kind, bound, x) == CASE kind = "none" -> TRUE [] kind = "open" -> BLess(bound, x) [] OTHER -> BLe(bound, x)
InHi(kind, bound, x) == CASE kind = "none" -> TRUE [] kind = "open" -> BLess(x, bound) [] OTHER -> BLe(x, bound)

\* first n cells of every column
RECURSIVE ColLimit(_, _, _, _)
ColLimit(cells, n, i, run) ==       \* run = number of cells of the current column already kept or seen
  IF i > Len(cells) THEN <<>>
  ELSE LET same == i > 1 /\ cells[i].f = cells[i-1].f /\ cells[i].q = cells[i-1].q
           r    == IF same THEN run + 1 ELSE 1
       IN (IF r <= n THEN <<cells[i]>> ELSE <<>>) \o ColLimit(cells, n, i + 1, r)

\* interleave: concatenate branch outputs, regroup per column (families in the order of the input row,
\* columns of a family by qualifier), cells by descending timestamp keeping duplicates
ColsOf(cells) == {<<cells[i].f, cells[i].q>> : i \in 1..Len(cells)}
FirstIdx(cells, P(_)) == CHOOSE i \in 1..Len(cells) : P(cells[i]) /\ \A j \in 1..(i-1) : ~P(cells[j])

RECURSIVE FamOrder(_, _)
FamOrder(cells, seen) ==
  IF \A i \in 1..Len(cells) : cells[i].f \in seen THEN <<>>
  ELSE LET i == FirstIdx(cells, LAMBDA c : c.f \notin seen) IN
       <<cells[i].f>> \o FamOrder(cells, seen \cup {cells[i].f})

\* stable insertion sort by descending timestamp
RECURSIVE InsertDesc(_, _), SortDescStable(_)
InsertDesc(sorted, c) ==
  IF sorted = <<>> THEN <<c>>
  ELSE IF LT64(Head(sorted).ts, c.ts) THEN <<c>> \o sorted
  ELSE <<Head(sorted)>> \o InsertDesc(Tail(sorted), c)
SortDescStable(cs) == IF cs = <<>> THEN <<>> ELSE InsertDesc(SortDescStable(SubSeq(cs, 1, Len(cs) - 1)), cs[Len(cs)])

\* families keep the order they have in the filter's input row `cells`
Regroup(all, cells) ==
  LET fo == SelectSeq(FamOrder(cells, {}), LAMBDA f : \E i \in 1..Len(all) : all[i].f = f) IN
  ConcatAll([j \in 1..Len(fo) |->
     LET qs == SortBytes({c[2] : c \in {d \in ColsOf(all) : d[1] = fo[j]}}) IN
     ConcatAll([m \in 1..Len(qs) |->
        SortDescStable(SelectSeq(all, LAMBDA c : c.f = fo[j] /\ c.q = qs[m]))])])

\* a cell list regrouped by ascending family name (stable inside a family): family order is not part of
\* what a read promises, everything else is
FamSorted(cs) ==
  LET fs == SortBytes({cs[i].f : i \in 1..Len(cs)}) IN
  ConcatAll([j \in 1..Len(fs) |-> SelectSeq(cs, LAMBDA c : c.f = fs[j])])

\* same multiset of cells per column and same column order, ignoring the order among equal timestamps
SameUpToTies(a, b) ==
  /\ Len(a) = Len(b)
  /\ \A i \in 1..Len(a) : a[i].f = b[i].f /\ a[i].q = b[i].q /\ a[i].ts = b[i].ts
  /\ \A i \in 1..Len(a) :
        Cardinality({j \in 1..Len(a) : a[j] = a[i]}) = Cardinality({j \in 1..Len(b) : b[j] = a[i]})

RECURSIVE Eval(_, _, _), ChainEval(_, _, _, _, _), InterEval(_, _, _, _, _, _)
Eval(flt, cells, key) ==
  CASE flt.k = "pass"  -> IF flt.b THEN {R(FALSE, cells)} ELSE {R(TRUE, <<>>)}
    [] flt.k = "block" -> IF flt.b THEN {R(FALSE, <<>>)} ELSE {R(TRUE, <<>>)}
    [] flt.k = "keyre" -> IF ReBad(flt.re) THEN {R(TRUE, <<>>)}
                          ELSE IF Matches(flt.re, key) THEN {R(FALSE, cells)} ELSE {R(FALSE, <<>>)}
    [] flt.k = "famre" -> IF ReBad(flt.re) THEN {R(TRUE, <<>>)}
                          ELSE {R(FALSE, SelectSeq(cells, LAMBDA c : Matches(flt.re, c.f)))}
    [] flt.k = "qualre" -> IF ReBad(flt.re) THEN {R(TRUE, <<>>)}
                          ELSE {R(FALSE, SelectSeq(cells, LAMBDA c : Matches(flt.re, c.q)))}
    [] flt.k = "valre" -> IF ReBad(flt.re) THEN {R(TRUE, <<>>)}
                          ELSE {R(FALSE, SelectSeq(cells, LAMBDA c : Matches(flt.re, c.v)))}
    [] flt.k = "colrange" ->
         {R(FALSE, SelectSeq(cells, LAMBDA c : c.f = flt.f /\ InLo(flt.sk, flt.s, c.q) /\ InHi(flt.ek, flt.e, c.q)))}
    [] flt.k = "valrange" ->
         {R(FALSE, SelectSeq(cells, LAMBDA c : InLo(flt.sk, flt.s, c.v) /\ InHi(flt.ek, flt.e, c.v)))}
    [] flt.k = "tsrange" ->
         IF ~IsMilli(flt.t0) \/ ~IsMilli(flt.t1) THEN {R(TRUE, <<>>)}
         ELSE {R(FALSE, SelectSeq(cells, LAMBDA c : GE64(c.ts, flt.t0) /\ (IsZero64(flt.t1) \/ LT64(c.ts, flt.t1))))}
    [] flt.k = "rowlimit" ->
         IF flt.n < 0 THEN {R(TRUE, <<>>)}
         ELSE {Sel(cells, SubSeq(cells, 1, IF flt.n < Len(cells) THEN flt.n ELSE Len(cells)))}
    [] flt.k = "rowoffset" ->
         IF flt.n < 0 THEN {R(TRUE, <<>>)}
         ELSE {Sel(cells, SubSeq(cells, (IF flt.n < Len(cells) THEN flt.n ELSE Len(cells)) + 1, Len(cells)))}
    [] flt.k = "collimit" ->
         IF flt.n < 0 THEN {R(TRUE, <<>>)} ELSE {Sel(cells, ColLimit(cells, flt.n, 1, 0))}
    [] flt.k = "strip" -> {R(FALSE, [i \in 1..Len(cells) |-> [cells[i] EXCEPT !.v = <<>>, !.lab = <<>>]])}
    [] flt.k = "label" -> {R(FALSE, [i \in 1..Len(cells) |-> [cells[i] EXCEPT !.lab = <<flt.l>>]])}
    [] flt.k = "sample" -> {R(FALSE, cells), R(FALSE, <<>>)}
    [] flt.k = "badsample" -> {R(TRUE, <<>>)}
    [] flt.k = "chain" -> IF Len(flt.fs) < 2 THEN {R(TRUE, <<>>)} ELSE ChainEval(flt.fs, 1, cells, key, FALSE)
    [] flt.k = "inter" -> IF Len(flt.fs) < 2 THEN {R(TRUE, <<>>)} ELSE InterEval(flt.fs, 1, cells, key, <<>>, FALSE)
    [] flt.k = "cond" ->
         UNION { IF p.err THEN {R(TRUE, <<>>)}
                 ELSE IF p.amb THEN {R3(FALSE, <<>>, TRUE)}      \* which branch is taken is not determined
                 ELSE LET br == IF p.cells # <<>> THEN flt.tb ELSE flt.fb IN
                      IF br.k = "nil" THEN {R(FALSE, <<>>)} ELSE Eval(br, cells, key)
                 : p \in Eval(flt.p, cells, key) }
    [] OTHER -> {R(TRUE, <<>>)}

ChainEval(fs, n, cells, key, amb) ==
  IF n > Len(fs) THEN {R3(FALSE, cells, amb)}
  ELSE UNION { IF o.err THEN {R(TRUE, <<>>)}
               ELSE IF o.amb THEN {R3(FALSE, <<>>, TRUE)}            \* undetermined from here on
               ELSE IF o.cells = <<>> THEN {R3(FALSE, <<>>, amb)}    \* stops as soon as nothing is left
               ELSE ChainEval(fs, n + 1, o.cells, key, amb)
               : o \in Eval(fs[n], cells, key) }

InterEval(fs, n, cells, key, acc, amb) ==
  IF n > Len(fs) THEN {R3(FALSE, Regroup(acc, cells), amb)}
  ELSE UNION { IF o.err THEN {R(TRUE, <<>>)} ELSE InterEval(fs, n + 1, cells, key, acc \o o.cells, amb \/ o.amb)
               : o \in Eval(fs[n], cells, key) }

\* does the tree contain an invalid filter anywhere (evaluated or not)?
RECURSIVE HasInvalid(_)
HasInvalid(flt) ==
  CASE flt.k \in {"pass", "block"} -> ~flt.b
    [] flt.k \in {"keyre", "famre", "qualre", "valre"} -> ReBad(flt.re)
    [] flt.k = "tsrange" -> ~IsMilli(flt.t0) \/ ~IsMilli(flt.t1)
    [] flt.k \in {"rowlimit", "rowoffset", "collimit"} -> flt.n < 0
    [] flt.k = "badsample" -> TRUE
    [] flt.k \in {"chain", "inter"} -> Len(flt.fs) < 2 \/ \E i \in 1..Len(flt.fs) : HasInvalid(flt.fs[i])
    [] flt.k = "cond" -> HasInvalid(flt.p) \/ (flt.tb.k # "nil" /\ HasInvalid(flt.tb)) \/ (flt.fb.k # "nil" /\ HasInvalid(flt.fb))
    [] flt.k \in {"colrange", "valrange", "strip", "label", "sample", "nil"} -> FALSE
    [] OTHER -> TRUE
=============================================================================
