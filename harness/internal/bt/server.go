package bt

import (
	"bytes"
	"context"
	"encoding/binary"
	"encoding/json"
	"fmt"
	"io"
	"os"
	"runtime/debug"
	"sort"
	"strings"
	"sync"
	"sync/atomic"
	"time"

	"cloud.google.com/go/bigtable"
	btapb "cloud.google.com/go/bigtable/admin/apiv2/adminpb"
	btpb "cloud.google.com/go/bigtable/apiv2/bigtablepb"
	"github.com/fullstorydev/emulators/bigtable/bttest"
	"google.golang.org/grpc"
	"google.golang.org/grpc/codes"
	"google.golang.org/grpc/credentials/insecure"
	"google.golang.org/grpc/status"
	"google.golang.org/protobuf/types/known/durationpb"

	"verif/harness/internal/j"
)

// Server is one real emulator instance plus gRPC clients.
type Server struct {
	Engine string
	Dir    string
	Srv    *bttest.Server
	conn   *grpc.ClientConn
	Data   btpb.BigtableClient
	Admin  btapb.BigtableTableAdminClient

	clock   int64
	mu      sync.Mutex
	parents map[string]bool
	last    *Obs
	Panics  []string

	tokMu    sync.Mutex
	tokOwner map[string]string // consistency token -> the table name it was first issued for
	tokens   map[string]string // table name -> the token last issued for it
}

func storageFor(engine, dir string) bttest.Storage {
	switch engine {
	case "btree":
		return bttest.BtreeStorage{}
	case "mem":
		return bttest.LeveldbMemStorage{}
	case "disk":
		return bttest.LeveldbDiskStorage{Root: dir}
	}
	panic("unknown engine " + engine)
}

// Start launches an emulator with the given engine (btree|mem|disk; dir is used by disk).
func Start(engine, dir string) (*Server, error) {
	s := &Server{Engine: engine, Dir: dir, parents: map[string]bool{}}
	recoverUnary := func(ctx context.Context, req interface{}, info *grpc.UnaryServerInfo, h grpc.UnaryHandler) (resp interface{}, err error) {
		defer func() {
			if r := recover(); r != nil {
				s.notePanic(fmt.Sprintf("%s: %v\n%s", info.FullMethod, r, debug.Stack()))
				err = status.Errorf(codes.Code(99), "PANIC: %v", r)
			}
		}()
		return h(ctx, req)
	}
	recoverStream := func(srv interface{}, ss grpc.ServerStream, info *grpc.StreamServerInfo, h grpc.StreamHandler) (err error) {
		defer func() {
			if r := recover(); r != nil {
				s.notePanic(fmt.Sprintf("%s: %v\n%s", info.FullMethod, r, debug.Stack()))
				err = status.Errorf(codes.Code(99), "PANIC: %v", r)
			}
		}()
		return h(srv, ss)
	}
	srv, err := bttest.NewServerWithOptions("127.0.0.1:0", bttest.Options{
		Storage: storageFor(engine, dir),
		Clock:   func() bigtable.Timestamp { return bigtable.Timestamp(atomic.LoadInt64(&s.clock)) },
		GrpcOpts: []grpc.ServerOption{
			grpc.UnaryInterceptor(recoverUnary), grpc.StreamInterceptor(recoverStream),
			grpc.MaxRecvMsgSize(256 << 20), grpc.MaxSendMsgSize(256 << 20),
		},
	})
	if err != nil {
		return nil, err
	}
	s.Srv = srv
	conn, err := grpc.NewClient(srv.Addr, grpc.WithTransportCredentials(insecure.NewCredentials()),
		grpc.WithDefaultCallOptions(grpc.MaxCallRecvMsgSize(256<<20), grpc.MaxCallSendMsgSize(256<<20)))
	if err != nil {
		srv.Close()
		return nil, err
	}
	s.conn = conn
	s.Data = btpb.NewBigtableClient(conn)
	s.Admin = btapb.NewBigtableTableAdminClient(conn)
	return s, nil
}

// Connect attaches to an emulator running in another process (no in-process server: GcPass/GcAuto are unavailable).
func Connect(addr string) (*Server, error) {
	s := &Server{Engine: "external", parents: map[string]bool{}}
	conn, err := grpc.NewClient(addr, grpc.WithTransportCredentials(insecure.NewCredentials()),
		grpc.WithDefaultCallOptions(grpc.MaxCallRecvMsgSize(256<<20), grpc.MaxCallSendMsgSize(256<<20)))
	if err != nil {
		return nil, err
	}
	s.conn = conn
	s.Data = btpb.NewBigtableClient(conn)
	s.Admin = btapb.NewBigtableTableAdminClient(conn)
	return s, nil
}

// Parents / SetParents carry the set of instances used so far across reconnects.
func (s *Server) Parents() []string {
	s.mu.Lock()
	defer s.mu.Unlock()
	var out []string
	for p := range s.parents {
		out = append(out, p)
	}
	return out
}

func (s *Server) notePanic(msg string) {
	s.mu.Lock()
	s.Panics = append(s.Panics, msg)
	s.mu.Unlock()
}

func (s *Server) Close() {
	if s.conn != nil {
		_ = s.conn.Close()
	}
	if s.Srv != nil {
		// Close takes every table's lock: on a server a run has wedged (a request that never gave its lock back)
		// it would never return. The wedged server is then abandoned; the run itself has been reported as stuck.
		done := make(chan struct{})
		go func() { s.Srv.Close(); close(done) }()
		select {
		case <-done:
		case <-time.After(5 * time.Second):
		}
	}
}

// CloseAndRemove closes the server and removes its directory (disk engine).
func (s *Server) CloseAndRemove() {
	s.Close()
	if s.Dir != "" {
		_ = os.RemoveAll(s.Dir)
	}
}

func (s *Server) SetClock(us int64) { atomic.StoreInt64(&s.clock, us) }

func (s *Server) AddParent(p string) {
	s.mu.Lock()
	s.parents[p] = true
	s.mu.Unlock()
}

func codeOf(err error) (int, string) {
	if err == nil {
		return 0, ""
	}
	st, _ := status.FromError(err)
	return int(st.Code()), st.Message()
}

func ctxT() (context.Context, context.CancelFunc) {
	return context.WithTimeout(context.Background(), 60*time.Second)
}

// ---- conversions to protos ----

func ruleToProto(r Rule) *btapb.GcRule {
	switch r.T {
	case "maxver":
		return &btapb.GcRule{Rule: &btapb.GcRule_MaxNumVersions{MaxNumVersions: int32(r.N)}}
	case "maxage":
		us := int64(r.Us)
		return &btapb.GcRule{Rule: &btapb.GcRule_MaxAge{MaxAge: &durationpb.Duration{Seconds: us / 1e6, Nanos: int32(us%1e6) * 1000}}}
	case "union":
		u := &btapb.GcRule_Union{}
		for _, x := range r.Rules {
			u.Rules = append(u.Rules, ruleToProto(x))
		}
		return &btapb.GcRule{Rule: &btapb.GcRule_Union_{Union: u}}
	case "inter":
		u := &btapb.GcRule_Intersection{}
		for _, x := range r.Rules {
			u.Rules = append(u.Rules, ruleToProto(x))
		}
		return &btapb.GcRule{Rule: &btapb.GcRule_Intersection_{Intersection: u}}
	}
	return nil
}

func ruleFromProto(r *btapb.GcRule) Rule {
	if r == nil {
		return Rule{T: "none"}
	}
	switch x := r.Rule.(type) {
	case *btapb.GcRule_MaxNumVersions:
		return Rule{T: "maxver", N: int(x.MaxNumVersions)}
	case *btapb.GcRule_MaxAge:
		return Rule{T: "maxage", Us: j.N64(x.MaxAge.GetSeconds()*1e6 + int64(x.MaxAge.GetNanos())/1000)}
	case *btapb.GcRule_Union_:
		out := Rule{T: "union"}
		for _, y := range x.Union.GetRules() {
			out.Rules = append(out.Rules, ruleFromProto(y))
		}
		return out
	case *btapb.GcRule_Intersection_:
		out := Rule{T: "inter"}
		for _, y := range x.Intersection.GetRules() {
			out.Rules = append(out.Rules, ruleFromProto(y))
		}
		return out
	}
	return Rule{T: "none"}
}

func famsFromProto(m map[string]*btapb.ColumnFamily) []FamDef {
	var out []FamDef
	for name, cf := range m {
		out = append(out, FamDef{F: j.S(name), Rule: ruleFromProto(cf.GetGcRule())})
	}
	sort.Slice(out, func(a, b int) bool { return bytes.Compare(out[a].F, out[b].F) < 0 })
	return out
}

func mutsToProto(ms []Mut) []*btpb.Mutation {
	var out []*btpb.Mutation
	for _, m := range ms {
		switch m.M {
		case "set":
			out = append(out, &btpb.Mutation{Mutation: &btpb.Mutation_SetCell_{SetCell: &btpb.Mutation_SetCell{
				FamilyName: string(m.F), ColumnQualifier: m.Q, TimestampMicros: int64(m.Ts), Value: m.V}}})
		case "delcol":
			d := &btpb.Mutation_DeleteFromColumn{FamilyName: string(m.F), ColumnQualifier: m.Q}
			if m.R == 1 {
				d.TimeRange = &btpb.TimestampRange{StartTimestampMicros: int64(m.S), EndTimestampMicros: int64(m.E)}
			}
			out = append(out, &btpb.Mutation{Mutation: &btpb.Mutation_DeleteFromColumn_{DeleteFromColumn: d}})
		case "delfam":
			out = append(out, &btpb.Mutation{Mutation: &btpb.Mutation_DeleteFromFamily_{DeleteFromFamily: &btpb.Mutation_DeleteFromFamily{FamilyName: string(m.F)}}})
		case "delrow":
			out = append(out, &btpb.Mutation{Mutation: &btpb.Mutation_DeleteFromRow_{DeleteFromRow: &btpb.Mutation_DeleteFromRow{}}})
		default:
			out = append(out, &btpb.Mutation{})
		}
	}
	return out
}

var badPatterns = []string{"(", "[a", "a**", "\\"}

// RenderRe renders a regex tree to RE2 text (bytes, possibly > 127 raw: the emulator escapes those itself).
func RenderRe(r *Re) []byte {
	var buf bytes.Buffer
	renderRe(&buf, r)
	return buf.Bytes()
}

func hexByte(buf *bytes.Buffer, b int) { fmt.Fprintf(buf, "\\x%02X", b) }

func renderRe(buf *bytes.Buffer, r *Re) {
	switch r.K {
	case "lit":
		c := byte(r.B)
		switch {
		case c >= 'a' && c <= 'z', c >= 'A' && c <= 'Z', c >= '0' && c <= '9':
			buf.WriteByte(c)
		case c > 127:
			buf.WriteByte(c) // raw: exercises the emulator's own escaping of non-ASCII pattern bytes
		default:
			hexByte(buf, r.B)
		}
	case "any":
		buf.WriteString(`\C`)
	case "dot":
		buf.WriteString(`.`)
	case "class":
		buf.WriteByte('[')
		if r.Neg {
			buf.WriteByte('^')
		}
		for _, b := range r.Set {
			hexByte(buf, b)
		}
		buf.WriteByte(']')
	case "cat":
		for i := range r.Xs {
			buf.WriteString("(?:")
			renderRe(buf, &r.Xs[i])
			buf.WriteString(")")
		}
	case "alt":
		buf.WriteString("(?:")
		for i := range r.Xs {
			if i > 0 {
				buf.WriteByte('|')
			}
			renderRe(buf, &r.Xs[i])
		}
		buf.WriteString(")")
	case "star", "plus", "opt":
		buf.WriteString("(?:")
		renderRe(buf, r.X)
		buf.WriteString(")")
		buf.WriteString(map[string]string{"star": "*", "plus": "+", "opt": "?"}[r.K])
	case "bad":
		buf.WriteString(badPatterns[r.B%len(badPatterns)])
	}
}

func filterToProto(f *Filter) *btpb.RowFilter {
	if f == nil || f.K == "nil" {
		return nil
	}
	switch f.K {
	case "pass":
		return &btpb.RowFilter{Filter: &btpb.RowFilter_PassAllFilter{PassAllFilter: f.B}}
	case "block":
		return &btpb.RowFilter{Filter: &btpb.RowFilter_BlockAllFilter{BlockAllFilter: f.B}}
	case "keyre":
		return &btpb.RowFilter{Filter: &btpb.RowFilter_RowKeyRegexFilter{RowKeyRegexFilter: RenderRe(f.Re)}}
	case "famre":
		return &btpb.RowFilter{Filter: &btpb.RowFilter_FamilyNameRegexFilter{FamilyNameRegexFilter: string(RenderRe(f.Re))}}
	case "qualre":
		return &btpb.RowFilter{Filter: &btpb.RowFilter_ColumnQualifierRegexFilter{ColumnQualifierRegexFilter: RenderRe(f.Re)}}
	case "valre":
		return &btpb.RowFilter{Filter: &btpb.RowFilter_ValueRegexFilter{ValueRegexFilter: RenderRe(f.Re)}}
	case "colrange":
		cr := &btpb.ColumnRange{FamilyName: string(f.F)}
		switch f.Sk {
		case "open":
			cr.StartQualifier = &btpb.ColumnRange_StartQualifierOpen{StartQualifierOpen: f.S}
		case "closed":
			cr.StartQualifier = &btpb.ColumnRange_StartQualifierClosed{StartQualifierClosed: f.S}
		}
		switch f.Ek {
		case "open":
			cr.EndQualifier = &btpb.ColumnRange_EndQualifierOpen{EndQualifierOpen: f.E}
		case "closed":
			cr.EndQualifier = &btpb.ColumnRange_EndQualifierClosed{EndQualifierClosed: f.E}
		}
		return &btpb.RowFilter{Filter: &btpb.RowFilter_ColumnRangeFilter{ColumnRangeFilter: cr}}
	case "valrange":
		vr := &btpb.ValueRange{}
		switch f.Sk {
		case "open":
			vr.StartValue = &btpb.ValueRange_StartValueOpen{StartValueOpen: f.S}
		case "closed":
			vr.StartValue = &btpb.ValueRange_StartValueClosed{StartValueClosed: f.S}
		}
		switch f.Ek {
		case "open":
			vr.EndValue = &btpb.ValueRange_EndValueOpen{EndValueOpen: f.E}
		case "closed":
			vr.EndValue = &btpb.ValueRange_EndValueClosed{EndValueClosed: f.E}
		}
		return &btpb.RowFilter{Filter: &btpb.RowFilter_ValueRangeFilter{ValueRangeFilter: vr}}
	case "tsrange":
		return &btpb.RowFilter{Filter: &btpb.RowFilter_TimestampRangeFilter{TimestampRangeFilter: &btpb.TimestampRange{
			StartTimestampMicros: int64(f.T0), EndTimestampMicros: int64(f.T1)}}}
	case "rowlimit":
		return &btpb.RowFilter{Filter: &btpb.RowFilter_CellsPerRowLimitFilter{CellsPerRowLimitFilter: int32(f.N)}}
	case "rowoffset":
		return &btpb.RowFilter{Filter: &btpb.RowFilter_CellsPerRowOffsetFilter{CellsPerRowOffsetFilter: int32(f.N)}}
	case "collimit":
		return &btpb.RowFilter{Filter: &btpb.RowFilter_CellsPerColumnLimitFilter{CellsPerColumnLimitFilter: int32(f.N)}}
	case "strip":
		return &btpb.RowFilter{Filter: &btpb.RowFilter_StripValueTransformer{StripValueTransformer: true}}
	case "label":
		return &btpb.RowFilter{Filter: &btpb.RowFilter_ApplyLabelTransformer{ApplyLabelTransformer: string(f.L)}}
	case "sample", "badsample":
		return &btpb.RowFilter{Filter: &btpb.RowFilter_RowSampleFilter{RowSampleFilter: float64(f.Pn) / 100}}
	case "chain":
		c := &btpb.RowFilter_Chain{}
		for i := range f.Fs {
			c.Filters = append(c.Filters, filterToProto(&f.Fs[i]))
		}
		return &btpb.RowFilter{Filter: &btpb.RowFilter_Chain_{Chain: c}}
	case "inter":
		c := &btpb.RowFilter_Interleave{}
		for i := range f.Fs {
			c.Filters = append(c.Filters, filterToProto(&f.Fs[i]))
		}
		return &btpb.RowFilter{Filter: &btpb.RowFilter_Interleave_{Interleave: c}}
	case "cond":
		return &btpb.RowFilter{Filter: &btpb.RowFilter_Condition_{Condition: &btpb.RowFilter_Condition{
			PredicateFilter: filterToProto(f.P), TrueFilter: filterToProto(f.Tb), FalseFilter: filterToProto(f.Fb)}}}
	}
	panic("unknown filter kind " + f.K)
}

func rowSetToProto(rs RowSet) *btpb.RowSet {
	if len(rs.Keys) == 0 && len(rs.Ranges) == 0 {
		return nil
	}
	out := &btpb.RowSet{}
	for _, k := range rs.Keys {
		out.RowKeys = append(out.RowKeys, append([]byte(nil), k...))
	}
	for _, r := range rs.Ranges {
		rr := &btpb.RowRange{}
		switch r.Sk {
		case "open":
			rr.StartKey = &btpb.RowRange_StartKeyOpen{StartKeyOpen: append([]byte(nil), r.S...)}
		case "closed":
			rr.StartKey = &btpb.RowRange_StartKeyClosed{StartKeyClosed: append([]byte(nil), r.S...)}
		}
		switch r.Ek {
		case "open":
			rr.EndKey = &btpb.RowRange_EndKeyOpen{EndKeyOpen: append([]byte(nil), r.E...)}
		case "closed":
			rr.EndKey = &btpb.RowRange_EndKeyClosed{EndKeyClosed: append([]byte(nil), r.E...)}
		}
		out.RowRanges = append(out.RowRanges, rr)
	}
	return out
}

func rowFromProto(r *btpb.Row) []Col {
	var out []Col
	for _, f := range r.GetFamilies() {
		for _, c := range f.GetColumns() {
			col := Col{F: j.S(f.Name), Q: j.B(c.Qualifier)}
			for _, cell := range c.GetCells() {
				col.Cells = append(col.Cells, Cell{Ts: j.N64(cell.TimestampMicros), V: j.B(cell.Value), Lab: labs(cell.Labels)})
			}
			out = append(out, col)
		}
	}
	return out
}

func labs(ls []string) []j.B {
	var out []j.B
	for _, l := range ls {
		out = append(out, j.S(l))
	}
	return out
}

// readRows issues a ReadRows request and decodes the chunk stream with a plain chunk reader.
// decodeErr is non-empty if the stream is not decodable (reported in the reply as code 98).
func (s *Server) readRows(req *btpb.ReadRowsRequest, wantChunks bool) (rows []Row, chunks []Chunk, nmsgs int, code int, msg string) {
	return s.readRowsCtx(context.Background(), req, wantChunks)
}

func (s *Server) readRowsCtx(parent context.Context, req *btpb.ReadRowsRequest, wantChunks bool) (rows []Row, chunks []Chunk, nmsgs int, code int, msg string) {
	ctx, cancel := context.WithTimeout(parent, 60*time.Second)
	defer cancel()
	stream, err := s.Data.ReadRows(ctx, req)
	if err != nil {
		code, msg = codeOf(err)
		return
	}
	var cur *Row
	var curCol *Col
	for {
		resp, err := stream.Recv()
		if err == io.EOF {
			break
		}
		if err != nil {
			code, msg = codeOf(err)
			return
		}
		for _, ch := range resp.Chunks {
			if wantChunks {
				c := Chunk{K: j.B(ch.RowKey), HasKey: len(ch.RowKey) > 0, Ts: j.N64(ch.TimestampMicros), V: j.B(ch.Value),
					Commit: ch.GetCommitRow(), Reset: ch.GetResetRow(), Msg: nmsgs}
				if ch.FamilyName != nil {
					c.HasFam, c.F = true, j.S(ch.FamilyName.Value)
				}
				if ch.Qualifier != nil {
					c.HasQual, c.Q = true, j.B(ch.Qualifier.Value)
				}
				chunks = append(chunks, c)
			}
			if len(ch.RowKey) > 0 {
				if cur != nil {
					return rows, chunks, nmsgs, 98, "chunk stream: new row key before commit"
				}
				cur = &Row{K: j.B(ch.RowKey)}
				curCol = nil
			}
			if cur == nil {
				return rows, chunks, nmsgs, 98, "chunk stream: chunk without a row"
			}
			if ch.FamilyName != nil || ch.Qualifier != nil {
				var fam j.B
				if ch.FamilyName != nil {
					fam = j.S(ch.FamilyName.Value)
				} else if curCol != nil {
					fam = curCol.F
				} else {
					return rows, chunks, nmsgs, 98, "chunk stream: qualifier without family"
				}
				if ch.Qualifier == nil {
					return rows, chunks, nmsgs, 98, "chunk stream: family without qualifier"
				}
				cur.Cols = append(cur.Cols, Col{F: fam, Q: j.B(ch.Qualifier.Value)})
				curCol = &cur.Cols[len(cur.Cols)-1]
			}
			if curCol == nil {
				return rows, chunks, nmsgs, 98, "chunk stream: cell without column"
			}
			curCol.Cells = append(curCol.Cells, Cell{Ts: j.N64(ch.TimestampMicros), V: j.B(ch.Value), Lab: labs(ch.Labels)})
			if ch.GetCommitRow() {
				rows = append(rows, *cur)
				cur, curCol = nil, nil
			}
		}
		nmsgs++
	}
	if cur != nil {
		return rows, chunks, nmsgs, 98, "chunk stream: ends inside a row"
	}
	return
}

func (s *Server) sample(table string) ([]Samp, int, string) {
	ctx, cancel := ctxT()
	defer cancel()
	stream, err := s.Data.SampleRowKeys(ctx, &btpb.SampleRowKeysRequest{TableName: table})
	if err != nil {
		c, m := codeOf(err)
		return nil, c, m
	}
	var out []Samp
	for {
		r, err := stream.Recv()
		if err == io.EOF {
			break
		}
		if err != nil {
			c, m := codeOf(err)
			return nil, c, m
		}
		out = append(out, Samp{K: j.B(r.RowKey), Off: int(r.OffsetBytes)})
	}
	return out, 0, ""
}

func tableID(full string) (parent, id string) {
	i := strings.LastIndex(full, "/tables/")
	if i < 0 {
		return "", full
	}
	return full[:i], full[i+len("/tables/"):]
}

// Exec issues op against the emulator and fills op.Resp.
func (s *Server) Exec(op *Op) { s.ExecCtx(context.Background(), op) }

// ExecCtx is Exec with a parent context (outgoing gRPC metadata travels with it).
func (s *Server) ExecCtx(parent context.Context, op *Op) {
	ctx, cancel := context.WithTimeout(parent, 60*time.Second)
	defer cancel()
	r := &Resp{}
	op.Resp = r
	s.SetClock(int64(op.Now))
	name := string(op.T)
	switch op.Ev {
	case "CreateTable":
		parent, id := string(op.Parent), ""
		_, id = tableID(name)
		s.AddParent(parent)
		cfs := map[string]*btapb.ColumnFamily{}
		for _, f := range op.Fams {
			cfs[string(f.F)] = &btapb.ColumnFamily{GcRule: ruleToProto(f.Rule)}
		}
		t, err := s.Admin.CreateTable(ctx, &btapb.CreateTableRequest{Parent: parent, TableId: id, Table: &btapb.Table{ColumnFamilies: cfs}})
		r.Code, r.Msg = codeOf(err)
		if err == nil {
			r.Fams = famsFromProto(t.ColumnFamilies)
		}
	case "GetTable":
		t, err := s.Admin.GetTable(ctx, &btapb.GetTableRequest{Name: name})
		r.Code, r.Msg = codeOf(err)
		if err == nil {
			r.Fams = famsFromProto(t.ColumnFamilies)
		}
	case "ListTables":
		s.AddParent(string(op.Parent))
		l, err := s.Admin.ListTables(ctx, &btapb.ListTablesRequest{Parent: string(op.Parent)})
		r.Code, r.Msg = codeOf(err)
		if err == nil {
			for _, t := range l.Tables {
				r.Names = append(r.Names, j.S(t.Name))
			}
			sort.Slice(r.Names, func(a, b int) bool { return bytes.Compare(r.Names[a], r.Names[b]) < 0 })
		}
	case "DeleteTable":
		_, err := s.Admin.DeleteTable(ctx, &btapb.DeleteTableRequest{Name: name})
		r.Code, r.Msg = codeOf(err)
	case "GenerateToken":
		t, err := s.Admin.GenerateConsistencyToken(ctx, &btapb.GenerateConsistencyTokenRequest{Name: name})
		r.Code, r.Msg = codeOf(err)
		if err == nil {
			s.tokMu.Lock()
			if s.tokOwner == nil {
				s.tokOwner, s.tokens = map[string]string{}, map[string]string{}
			}
			if _, seen := s.tokOwner[t.ConsistencyToken]; !seen && t.ConsistencyToken != "" {
				s.tokOwner[t.ConsistencyToken] = name
			}
			s.tokens[name] = t.ConsistencyToken
			r.TokFor = j.S(s.tokOwner[t.ConsistencyToken]) // an empty token is owned by nobody
			s.tokMu.Unlock()
		}
	case "CheckConsistency":
		s.tokMu.Lock()
		tok, have := s.tokens[string(op.TokFor)]
		s.tokMu.Unlock()
		if !op.Genuine || !have {
			op.Genuine = false // no token has been issued for that name in this run: present a made-up one
			tok = "no-such-token-" + string(op.TokFor)
		}
		c, err := s.Admin.CheckConsistency(ctx, &btapb.CheckConsistencyRequest{Name: name, ConsistencyToken: tok})
		r.Code, r.Msg = codeOf(err)
		if err == nil {
			r.Consistent = c.Consistent
		}
	case "ModifyFamilies":
		req := &btapb.ModifyColumnFamiliesRequest{Name: name}
		for _, m := range op.Mods {
			mod := &btapb.ModifyColumnFamiliesRequest_Modification{Id: string(m.F)}
			switch m.K {
			case "create":
				mod.Mod = &btapb.ModifyColumnFamiliesRequest_Modification_Create{Create: &btapb.ColumnFamily{GcRule: ruleToProto(m.Rule)}}
			case "update":
				mod.Mod = &btapb.ModifyColumnFamiliesRequest_Modification_Update{Update: &btapb.ColumnFamily{GcRule: ruleToProto(m.Rule)}}
			case "drop":
				mod.Mod = &btapb.ModifyColumnFamiliesRequest_Modification_Drop{Drop: true}
			}
			req.Modifications = append(req.Modifications, mod)
		}
		t, err := s.Admin.ModifyColumnFamilies(ctx, req)
		r.Code, r.Msg = codeOf(err)
		if err == nil {
			r.Fams = famsFromProto(t.ColumnFamilies)
		}
	case "DropRowRange":
		req := &btapb.DropRowRangeRequest{Name: name}
		if op.All {
			req.Target = &btapb.DropRowRangeRequest_DeleteAllDataFromTable{DeleteAllDataFromTable: true}
		} else if op.HasPrefix {
			req.Target = &btapb.DropRowRangeRequest_RowKeyPrefix{RowKeyPrefix: op.Prefix}
		}
		_, err := s.Admin.DropRowRange(ctx, req)
		r.Code, r.Msg = codeOf(err)
	case "MutateRow":
		_, err := s.Data.MutateRow(ctx, &btpb.MutateRowRequest{TableName: name, RowKey: op.K, Mutations: mutsToProto(op.Muts)})
		r.Code, r.Msg = codeOf(err)
	case "MutateRows":
		req := &btpb.MutateRowsRequest{TableName: name}
		for _, e := range op.Entries {
			req.Entries = append(req.Entries, &btpb.MutateRowsRequest_Entry{RowKey: e.K, Mutations: mutsToProto(e.Muts)})
		}
		stream, err := s.Data.MutateRows(ctx, req)
		if err != nil {
			r.Code, r.Msg = codeOf(err)
			break
		}
		ent := make([]int, len(op.Entries))
		for i := range ent {
			ent[i] = -1
		}
		for {
			resp, err := stream.Recv()
			if err == io.EOF {
				break
			}
			if err != nil {
				r.Code, r.Msg = codeOf(err)
				break
			}
			for _, e := range resp.Entries {
				if int(e.Index) < len(ent) && e.Index >= 0 {
					ent[e.Index] = int(e.GetStatus().GetCode())
				}
			}
		}
		r.Entries = ent
	case "CheckAndMutate":
		req := &btpb.CheckAndMutateRowRequest{TableName: name, RowKey: op.K, TrueMutations: mutsToProto(op.Tm), FalseMutations: mutsToProto(op.Fm)}
		if op.HasPred {
			req.PredicateFilter = filterToProto(op.Pred)
		}
		resp, err := s.Data.CheckAndMutateRow(ctx, req)
		r.Code, r.Msg = codeOf(err)
		if err == nil {
			r.Matched = resp.PredicateMatched
		}
	case "ReadModifyWrite":
		req := &btpb.ReadModifyWriteRowRequest{TableName: name, RowKey: op.K}
		for _, ru := range op.Rules {
			x := &btpb.ReadModifyWriteRule{FamilyName: string(ru.F), ColumnQualifier: ru.Q}
			switch ru.K {
			case "append":
				x.Rule = &btpb.ReadModifyWriteRule_AppendValue{AppendValue: ru.V}
			case "incr":
				x.Rule = &btpb.ReadModifyWriteRule_IncrementAmount{IncrementAmount: int64(binary.BigEndian.Uint64(ru.Amt))}
			}
			req.Rules = append(req.Rules, x)
		}
		resp, err := s.Data.ReadModifyWriteRow(ctx, req)
		r.Code, r.Msg = codeOf(err)
		if err == nil {
			r.Row = rowFromProto(resp.Row)
		}
	case "ReadRows":
		req := &btpb.ReadRowsRequest{TableName: name, Rows: rowSetToProto(op.Rs), RowsLimit: int64(op.Limit)}
		if op.HasFilter {
			req.Filter = filterToProto(op.Filter)
		}
		r.Rows, r.Chunks, r.NMsgs, r.Code, r.Msg = s.readRowsCtx(parent, req, op.WantChunks)
		if r.Code != 0 {
			r.Rows = nil
		}
	case "SampleRowKeys":
		r.Samp, r.Code, r.Msg = s.sample(name)
	case "GcPass":
		s.Srv.VerifGC(name, bigtable.Timestamp(int64(op.Now)), true)
	case "GcAuto":
		if op.Idle {
			s.Srv.VerifSetIdle(name, 6*time.Minute)
		}
		s.Srv.VerifGC(name, bigtable.Timestamp(int64(op.Now)), false)
	default:
		panic("unknown op " + op.Ev)
	}
	if r.Code == 99 {
		r.Panic = true
	}
}

// Observe reads the whole state back: every table under every parent used so far, its schema, all rows, and a key sample.
func (s *Server) Observe() *Obs {
	ctx, cancel := ctxT()
	defer cancel()
	s.mu.Lock()
	var parents []string
	for p := range s.parents {
		parents = append(parents, p)
	}
	s.mu.Unlock()
	sort.Strings(parents)
	obs := &Obs{}
	for _, p := range parents {
		l, err := s.Admin.ListTables(ctx, &btapb.ListTablesRequest{Parent: p})
		if err != nil {
			obs.Err = "ListTables: " + err.Error()
			return obs
		}
		var names []string
		for _, t := range l.Tables {
			names = append(names, t.Name)
		}
		sort.Strings(names)
		for _, n := range names {
			ot := ObsTable{T: j.S(n), Parent: j.S(p)}
			t, err := s.Admin.GetTable(ctx, &btapb.GetTableRequest{Name: n})
			if err != nil {
				obs.Err = "GetTable: " + err.Error()
				ot.Fams = []FamDef{{F: j.S("!GetTable failed"), Rule: Rule{T: "none"}}}
			} else {
				ot.Fams = famsFromProto(t.ColumnFamilies)
			}
			rows, _, _, code, msg := s.readRows(&btpb.ReadRowsRequest{TableName: n}, false)
			if code != 0 {
				obs.Err = fmt.Sprintf("ReadRows: %d %s", code, msg)
				rows = []Row{{K: j.S("!ReadRows failed: " + msg)}}
			}
			ot.Rows = rows
			samp, code, msg := s.sample(n)
			if code != 0 {
				obs.Err = fmt.Sprintf("SampleRowKeys: %d %s", code, msg)
				samp = []Samp{{K: j.S("!SampleRowKeys failed"), Off: -1}}
			}
			ot.Samp = samp
			obs.Tables = append(obs.Tables, ot)
		}
	}
	s.mu.Lock()
	s.last = obs
	s.mu.Unlock()
	return obs
}

// famOrderOf extracts the family presentation order of every row of a table from the last read-back.
func famOrders(obs *Obs, table []byte) []FamOrder {
	var out []FamOrder
	if obs == nil {
		return out
	}
	for _, t := range obs.Tables {
		if !bytes.Equal(t.T, table) {
			continue
		}
		for _, r := range t.Rows {
			fo := FamOrder{K: r.K}
			for _, c := range r.Cols {
				if len(fo.Fo) == 0 || !bytes.Equal(fo.Fo[len(fo.Fo)-1], c.F) {
					fo.Fo = append(fo.Fo, c.F)
				}
			}
			out = append(out, fo)
		}
	}
	return out
}

// Run executes a program as trace number tr and returns the recorded events (with a leading Reset).
// Each op is executed, then the whole state is read back.
func (s *Server) Run(tr int, prog []Op) []Op {
	out := []Op{{Ev: "Reset", Tr: tr}}
	s.Observe()
	var prevObs []byte
	for i := range prog {
		op := prog[i]
		op.Tr, op.I = tr, i+1
		op.Resp, op.Obs = nil, nil
		s.mu.Lock()
		last := s.last
		s.mu.Unlock()
		switch op.Ev {
		case "ReadRows":
			op.FamOrders = famOrders(last, op.T)
		case "CheckAndMutate":
			op.FamOrder = nil
			for _, fo := range famOrders(last, op.T) {
				if bytes.Equal(fo.K, op.K) {
					op.FamOrder = fo.Fo
				}
			}
		}
		s.Exec(&op)
		op.Obs = s.Observe()
		// identical to the previous read-back, key samples (random) aside?
		noSamp := *op.Obs
		noSamp.Tables = append([]ObsTable(nil), op.Obs.Tables...)
		var samps []ObsSamp
		for i := range noSamp.Tables {
			samps = append(samps, ObsSamp{T: noSamp.Tables[i].T, Samp: noSamp.Tables[i].Samp})
			noSamp.Tables[i].Samp = nil
		}
		cur, _ := json.Marshal(noSamp)
		if prevObs != nil && bytes.Equal(cur, prevObs) {
			op.Obs = &Obs{Same: true, Samps: samps}
		}
		prevObs = cur
		out = append(out, op)
	}
	return out
}
