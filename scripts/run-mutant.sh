#!/bin/bash
# usage: scripts/run-mutant.sh <seeded-dir> <tier> <property> [<property> ...]
# Runs the named checks against a seeded change WITHOUT touching /repo or /verif: a scratch worktree of /repo HEAD gets
# the patch, a scratch copy of /verif (specs, harness, known findings) is pointed at it, and both are removed afterwards.
# Prints one line per check: "<mutant> <property> <tier> exit=<code> <first VIOLATION line and what / last line>".
# <seeded-dir> = "none": the unchanged tree (an isolated run of a check that leaves /verif free for editing)
if [ "$1" = none ]; then d=none; else d="$(cd "$1" && pwd)"; fi; tier="$2"; shift 2
[ "$d" = none ] || [ -f "$d/patch.diff" ] || { echo "no patch in $d"; exit 2; }
export GOFLAGS=-mod=mod GOPROXY=off GOSUMDB=off GOTOOLCHAIN=local
S=$(mktemp -d /tmp/iso.XXXXXX)
cleanup() { git -C /repo worktree remove --force "$S/repo" 2>/dev/null; rm -rf "$S"; git -C /repo worktree prune; }
trap cleanup EXIT
git -C /repo worktree add -q --detach "$S/repo" HEAD || exit 2
[ "$d" = none ] || git -C "$S/repo" apply "$d/patch.diff" || { echo "$(basename $d): patch does not apply"; exit 2; }
mkdir -p "$S/verif" && (cd /verif && tar cf - --exclude=./bin --exclude=./replays --exclude=./.git --exclude=./seeded --exclude=./evidence .) | (cd "$S/verif" && tar xf -)
mkdir -p "$S/verif/bin" "$S/verif/replays" "$S/verif/evidence"
sed -i "s|=> /repo/|=> $S/repo/|" "$S/verif/harness/go.mod"
export VERIF_ROOT="$S/verif" VERIF_SCRATCH="${TMPDIR:-/tmp}"
race=""; for p in "$@"; do [ "$p" = C20 ] && race=1; done
if ! (cd "$S/verif/harness" && go build -tags verif -o "$S/verif/bin/verif" ./cmd/verif \
   && go build -tags verif -o "$S/verif/bin/cbtemulator" github.com/fullstorydev/emulators/bigtable/cmd/cbtemulator \
   && go build -tags verif -o "$S/verif/bin/gcsemulator" github.com/fullstorydev/emulators/storage/cmd/gcsemulator \
   && { [ -z "$race" ] || go build -race -tags verif -o "$S/verif/bin/verif-race" ./cmd/verif; }) >"$S/build.log" 2>&1; then
  echo "$(basename $d): harness does not build against the change"; tail -5 "$S/build.log"; exit 2
fi
for p in "$@"; do
  out=$(cd "$S/verif" && timeout -s QUIT ${MUT_TIMEOUT:-3600} bin/verif check --property "$p" --tier "$tier" 2>&1); code=$?
  [ -n "$MUT_LOG" ] && echo "$out" > "$MUT_LOG.$(basename $d).$p"
  line=$(echo "$out" | grep -m1 "^VIOLATION" | sed "s|$S||"); what=$(echo "$out" | grep -m1 -A1 "^VIOLATION" | tail -1 | cut -c1-260)
  [ -z "$line" ] && what=$(echo "$out" | grep -v '^\[C[0-9]*\] ' | tail -1 | cut -c1-260)
  echo "$(basename $d) $p $tier exit=$code $line $what"
done
