-------------------------------- MODULE BtGC --------------------------------
(***************************************************************************)
(* Garbage-collection policy (C16): which cells of ONE column a rule       *)
(* condemns.  cells: function timestamp -> value.  Rules (field t):        *)
(*  none | maxver n | maxage us (Num64 microseconds) | union rules |       *)
(*  inter rules (unsupported: condemns nothing)                            *)
(***************************************************************************)
EXTENDS Num64, Integers, Sequences, FiniteSets

\* number of cells strictly newer than t
Newer(cells, t) == Cardinality({u \in DOMAIN cells : GT64(u, t)})

RECURSIVE Condemned(_, _, _)
Condemned(rule, cells, now) ==
  CASE rule.t = "maxver" -> IF rule.n < 0 THEN {} ELSE {t \in DOMAIN cells : Newer(cells, t) >= rule.n}
    [] rule.t = "maxage" -> LET cutoff == Sub64(now, rule.us) IN {t \in DOMAIN cells : LT64(t, cutoff)}
    [] rule.t = "union"  -> UNION {Condemned(rule.rules[i], cells, now) : i \in 1..Len(rule.rules)}
    [] OTHER -> {}

(***************************************************************************)
(* Implementation shape (applyGC): a union applies its members one after   *)
(* another to what the previous member left; max-age cuts the descending   *)
(* list at the first cell older than the cut-off; max-versions truncates.  *)
(***************************************************************************)
RECURSIVE Survivors(_, _, _), SurvSeq(_, _, _, _)
Survivors(rule, keep, now) ==          \* keep: the set of timestamps still present
  CASE rule.t = "maxver" -> {t \in keep : Cardinality({u \in keep : GT64(u, t)}) < rule.n}
    [] rule.t = "maxage" -> LET cutoff == Sub64(now, rule.us) IN {t \in keep : ~LT64(t, cutoff)}
    [] rule.t = "union"  -> SurvSeq(rule.rules, 1, keep, now)
    [] OTHER -> keep
SurvSeq(rules, i, keep, now) == IF i > Len(rules) THEN keep ELSE SurvSeq(rules, i + 1, Survivors(rules[i], keep, now), now)

\* refinement statement checked by TLC (MC_GC): sequential application = set semantics
SeqFormCorrect(rule, cells, now) == Survivors(rule, DOMAIN cells, now) = (DOMAIN cells) \ Condemned(rule, cells, now)

HasRule(rule) == rule.t # "none"

\* one column after a pass
GcCells(rule, cells, now) == LET dead == Condemned(rule, cells, now) IN [t \in (DOMAIN cells) \ dead |-> cells[t]]
=============================================================================
