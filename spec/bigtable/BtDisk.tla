-------------------------------- MODULE BtDisk ------------------------------
(***************************************************************************)
(* Persistence structure of the Bigtable emulator with on-disk storage     *)
(* (C08): what is in memory, what is on disk, the file-system steps of     *)
(* every request that touches the disk, process death at any point, and    *)
(* recovery (walk for table metadata files, open each table's database).   *)
(*                                                                         *)
(* disk.meta[t] : schema version in <t>.table.proto (written as tmp file + *)
(*                rename: only the rename changes what recovery sees)      *)
(* disk.db[t]   : the rows in the leveldb directory of t (a row write is   *)
(*                one atomic journalled put/delete)                        *)
(* acked        : the state implied by all acknowledged requests           *)
(* cur          : the request in flight and its step                       *)
(*                                                                         *)
(* Configuration constants describe the two places where the design could  *)
(* go (and the repository went) wrong:                                     *)
(*   DeleteOnDisk : DeleteTable removes the metadata file and the          *)
(*                  directory (intended) / only forgets the table in       *)
(*                  memory (FALSE: the table is back after a restart)      *)
(*   MetaLast     : CreateTable makes the table visible to recovery        *)
(*                  (metadata rename) after its empty database exists      *)
(*                  (intended) / before it clears a stale directory        *)
(*   AtomicFamilyDrop : dropping a column family purges its cells and      *)
(*                  publishes the new schema as one recoverable unit       *)
(*                  (intended: e.g. recovery completes the purge) / the    *)
(*                  rows are purged first and the schema file is written   *)
(*                  afterwards (FALSE: what the repository does -- known   *)
(*                  finding Dev_FamilyDropTornByCrash)                     *)
(***************************************************************************)
EXTENDS Naturals, FiniteSets, TLC

CONSTANTS Tables, Keys, MaxReqs, MaxCrashes, DeleteOnDisk, MetaLast, AtomicFamilyDrop

VARIABLES up, mem, disk, acked, cur, nreq, ncrash
vars == <<up, mem, disk, acked, cur, nreq, ncrash>>

NoTables == [t \in {} |-> 0]
Idle == [k |-> "idle"]
Init == /\ up = TRUE /\ mem = NoTables /\ disk = [meta |-> NoTables, db |-> NoTables] /\ acked = NoTables
        /\ cur = Idle /\ nreq = 0 /\ ncrash = 0

Put(f, k, v) == [x \in (DOMAIN f) \cup {k} |-> IF x = k THEN v ELSE f[x]]
Del(f, k) == [x \in (DOMAIN f) \ {k} |-> f[x]]
T(ver, rows) == [ver |-> ver, rows |-> rows]

\* ---- a client issues a request (one at a time: the crash may hit it at any of its steps) ----
Issue == /\ up /\ cur.k = "idle" /\ nreq < MaxReqs /\ nreq' = nreq + 1
         /\ \E t \in Tables :
              \/ t \notin DOMAIN mem /\ cur' = [k |-> "create", t |-> t, pc |-> 1]
              \/ t \in DOMAIN mem /\ cur' = [k |-> "modify", t |-> t, pc |-> 1]
              \/ t \in DOMAIN mem /\ cur' = [k |-> "dropfam", t |-> t, pc |-> 1]
              \/ t \in DOMAIN mem /\ \E key \in Keys : cur' = [k |-> "put", t |-> t, key |-> key, pc |-> 1]
              \/ t \in DOMAIN mem /\ \E key \in Keys : cur' = [k |-> "delrow", t |-> t, key |-> key, pc |-> 1]
              \/ t \in DOMAIN mem /\ cur' = [k |-> "clear", t |-> t, pc |-> 1]
              \/ t \in DOMAIN mem /\ cur' = [k |-> "deltable", t |-> t, pc |-> 1]
         /\ UNCHANGED <<up, mem, disk, acked, ncrash>>

Ack(newAcked, newMem) == cur' = Idle /\ acked' = newAcked /\ mem' = newMem
Same == UNCHANGED <<up, nreq, ncrash>>

\* CreateTable.  Code order: 1 meta (mkdir, tmp, rename)  2 remove the directory  3 open a new database  4 register, reply.
\* Intended order (MetaLast): 1 remove the directory  2 open a new database  3 meta rename  4 register, reply.
StepCreate ==
  /\ up /\ cur.k = "create" /\ Same
  /\ LET t == cur.t IN
     CASE cur.pc = 1 -> /\ disk' = IF MetaLast THEN [disk EXCEPT !.db = Del(@, t)] ELSE [disk EXCEPT !.meta = Put(@, t, 1)]
                        /\ cur' = [cur EXCEPT !.pc = 2] /\ UNCHANGED <<mem, acked>>
       [] cur.pc = 2 -> /\ disk' = IF MetaLast THEN [disk EXCEPT !.db = Put(@, t, {})] ELSE [disk EXCEPT !.db = Del(@, t)]
                        /\ cur' = [cur EXCEPT !.pc = 3] /\ UNCHANGED <<mem, acked>>
       [] cur.pc = 3 -> /\ disk' = IF MetaLast THEN [disk EXCEPT !.meta = Put(@, t, 1)] ELSE [disk EXCEPT !.db = Put(@, t, {})]
                        /\ cur' = [cur EXCEPT !.pc = 4] /\ UNCHANGED <<mem, acked>>
       [] OTHER -> Ack(Put(acked, t, T(1, {})), Put(mem, t, T(1, {}))) /\ UNCHANGED disk
\* ModifyColumnFamilies: schema changed in memory, then tmp file, then rename
StepModify ==
  /\ up /\ cur.k = "modify" /\ Same
  /\ LET t == cur.t  v == mem[t].ver + 1 IN
     CASE cur.pc = 1 -> mem' = [mem EXCEPT ![t].ver = v] /\ cur' = [cur EXCEPT !.pc = 2] /\ UNCHANGED <<disk, acked>>
       [] cur.pc = 2 -> disk' = [disk EXCEPT !.meta = Put(@, t, mem[t].ver)] /\ cur' = [cur EXCEPT !.pc = 3] /\ UNCHANGED <<mem, acked>>
       [] OTHER -> Ack([acked EXCEPT ![t].ver = mem[t].ver], mem) /\ UNCHANGED disk
\* ModifyColumnFamilies(drop): the rows lose the family's cells (here: the family holds all cells of the table, so the
\* rows go), and the schema changes. Code order: purge the rows in the database, then tmp file + rename.
StepDropFam ==
  /\ up /\ cur.k = "dropfam" /\ Same
  /\ LET t == cur.t  v == mem[t].ver + 1 IN
     IF AtomicFamilyDrop
     THEN CASE cur.pc = 1 -> /\ disk' = [disk EXCEPT !.db = Put(@, t, {}), !.meta = Put(@, t, v)] /\ mem' = [mem EXCEPT ![t] = T(v, {})]
                             /\ cur' = [cur EXCEPT !.pc = 2] /\ UNCHANGED acked
            [] OTHER -> Ack([acked EXCEPT ![t] = T(mem[t].ver, {})], mem) /\ UNCHANGED disk
     ELSE CASE cur.pc = 1 -> /\ disk' = [disk EXCEPT !.db = Put(@, t, {})] /\ mem' = [mem EXCEPT ![t] = T(v, {})]
                             /\ cur' = [cur EXCEPT !.pc = 2] /\ UNCHANGED acked
            [] cur.pc = 2 -> disk' = [disk EXCEPT !.meta = Put(@, t, mem[t].ver)] /\ cur' = [cur EXCEPT !.pc = 3] /\ UNCHANGED <<mem, acked>>
            [] OTHER -> Ack([acked EXCEPT ![t] = T(mem[t].ver, {})], mem) /\ UNCHANGED disk
\* a row write / row delete: one atomic put / delete in the table's database
StepRow ==
  /\ up /\ cur.k \in {"put", "delrow"} /\ Same
  /\ LET t == cur.t  rows == IF cur.k = "put" THEN mem[t].rows \cup {cur.key} ELSE mem[t].rows \ {cur.key} IN
     CASE cur.pc = 1 -> /\ disk' = [disk EXCEPT !.db = Put(@, t, rows)] /\ mem' = [mem EXCEPT ![t].rows = rows]
                        /\ cur' = [cur EXCEPT !.pc = 2] /\ UNCHANGED acked
       [] OTHER -> Ack([acked EXCEPT ![t].rows = rows], mem) /\ UNCHANGED disk
\* DropRowRange(all): close the database, remove the directory, open a new one
StepClear ==
  /\ up /\ cur.k = "clear" /\ Same
  /\ LET t == cur.t IN
     CASE cur.pc = 1 -> disk' = [disk EXCEPT !.db = Del(@, t)] /\ cur' = [cur EXCEPT !.pc = 2] /\ UNCHANGED <<mem, acked>>
       [] cur.pc = 2 -> disk' = [disk EXCEPT !.db = Put(@, t, {})] /\ cur' = [cur EXCEPT !.pc = 3] /\ UNCHANGED <<mem, acked>>
       [] OTHER -> Ack([acked EXCEPT ![t].rows = {}], [mem EXCEPT ![t].rows = {}]) /\ UNCHANGED disk
\* DeleteTable: forget in memory; (intended) remove the metadata file, then the directory
StepDelTable ==
  /\ up /\ cur.k = "deltable" /\ Same
  /\ LET t == cur.t IN
     CASE cur.pc = 1 -> mem' = Del(mem, t) /\ cur' = [cur EXCEPT !.pc = 2] /\ UNCHANGED <<disk, acked>>
       [] cur.pc = 2 -> disk' = (IF DeleteOnDisk THEN [disk EXCEPT !.meta = Del(@, t)] ELSE disk) /\ cur' = [cur EXCEPT !.pc = 3] /\ UNCHANGED <<mem, acked>>
       [] cur.pc = 3 -> disk' = (IF DeleteOnDisk THEN [disk EXCEPT !.db = Del(@, t)] ELSE disk) /\ cur' = [cur EXCEPT !.pc = 4] /\ UNCHANGED <<mem, acked>>
       [] OTHER -> Ack(Del(acked, t), mem) /\ UNCHANGED disk

\* the process dies (kill) at any moment: memory is gone, the request in flight stays "maybe"
Crash == /\ up /\ ncrash < MaxCrashes /\ up' = FALSE /\ ncrash' = ncrash + 1 /\ mem' = NoTables
         /\ UNCHANGED <<disk, acked, cur, nreq>>
\* what recovery builds from the disk
Recovered == [t \in DOMAIN disk.meta |-> T(disk.meta[t], IF t \in DOMAIN disk.db THEN disk.db[t] ELSE {})]
\* the state if the request in flight had taken effect entirely
WithInflight ==
  CASE cur.k = "create"   -> Put(acked, cur.t, T(1, {}))
    [] cur.k = "modify"   -> [acked EXCEPT ![cur.t].ver = @ + 1]
    [] cur.k = "dropfam"  -> [acked EXCEPT ![cur.t] = T(@.ver + 1, {})]
    [] cur.k = "put"      -> [acked EXCEPT ![cur.t].rows = @ \cup {cur.key}]
    [] cur.k = "delrow"   -> [acked EXCEPT ![cur.t].rows = @ \ {cur.key}]
    [] cur.k = "clear"    -> [acked EXCEPT ![cur.t].rows = {}]
    [] cur.k = "deltable" -> Del(acked, cur.t)
    [] OTHER -> acked
Recover == /\ ~up /\ up' = TRUE /\ mem' = Recovered
           \* the client learns the outcome of its unacknowledged request from what it reads back
           /\ acked' = Recovered /\ cur' = Idle
           /\ UNCHANGED <<disk, nreq, ncrash>>

Next == Issue \/ StepCreate \/ StepModify \/ StepDropFam \/ StepRow \/ StepClear \/ StepDelTable \/ Crash \/ Recover
Spec == Init /\ [][Next]_vars

\* C08: whenever the process is down, what recovery would serve is the acknowledged state, the in-flight request
\* being wholly present or wholly absent
RecoveredOK == ~up => (Recovered = acked \/ Recovered = WithInflight)
\* while up and idle, memory equals the acknowledged state and equals what the disk would recover to
Consistent == (up /\ cur.k = "idle") => (mem = acked /\ Recovered = acked)
=============================================================================
