#!/usr/bin/env python3
import json,sys,glob,collections
def short(f):
    if f is None: return None
    k=f['k']; s=k
    if k in('chain','inter'): s+='('+','.join(str(short(x)) for x in (f.get('fs') or []))+')'
    elif k=='cond': s+='(%s?%s:%s)'%(short(f['p']),short(f['tb']),short(f['fb']))
    elif k in('rowlimit','rowoffset','collimit'): s+=str(f['n'])
    elif k in('pass','block'): s+=str(f['b'])[0]
    elif 're' in f: s+='/'+f['re']['k']
    return s
cnt=collections.Counter()
for p in glob.glob('/verif/replays/%s-*.json'%sys.argv[1]):
    d=json.load(open(p)); c=d['case']; ev=c.get('observed_event') or {}
    key=(ev.get('ev'),c.get('why'),'pred='+str(short(ev.get('pred')) if ev.get('hasPred') else None),'flt='+str(short(ev.get('filter')) if ev.get('hasFilter') else None),'code=%s'%ev.get('resp',{}).get('code'),'matched=%s'%ev.get('resp',{}).get('matched'),'panic' if c.get('panics') else '')
    cnt[key]+=1; 
    if cnt[key]==1: print(p)
for k,v in cnt.most_common(): print(v,*k)
