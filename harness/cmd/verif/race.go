package main

import (
	"context"
	"fmt"
	"os"
	"strconv"
	"sync"
	"sync/atomic"
	"time"

	btapb "cloud.google.com/go/bigtable/admin/apiv2/adminpb"

	"verif/harness/internal/bt"
	"verif/harness/internal/gcs"
	"verif/harness/internal/j"
)

// raceMain: "verif race <bt|gcs> <handler1> <handler2> <seconds>" issues the two kinds of request concurrently (two
// goroutines each) against an in-process emulator. Built with -race, the race detector and the runtime's own checks
// are the oracle; the pairs come from the lock-discipline model of spec/robust/Robust.tla.
func raceMain(args []string) int {
	if len(args) < 4 {
		fmt.Fprintln(os.Stderr, "usage: verif race <bt|gcs> <h1> <h2> <seconds>")
		return 2
	}
	secs, _ := strconv.ParseFloat(args[3], 64)
	deadline := time.Now().Add(time.Duration(secs * float64(time.Second)))
	engine := func(def string) string {
		if len(args) > 4 {
			return args[4]
		}
		return def
	}
	var wg sync.WaitGroup
	var ops int64
	run := func(f func(i int)) {
		for w := 0; w < 2; w++ {
			wg.Add(1)
			go func(w int) {
				defer wg.Done()
				for i := w; time.Now().Before(deadline); i += 2 {
					f(i)
					atomic.AddInt64(&ops, 1)
				}
			}(w)
		}
	}
	switch args[0] {
	case "bt":
		dir := tmpDir()
		defer os.RemoveAll(dir)
		s, err := bt.Start(engine("mem"), dir)
		if err != nil {
			panic(err)
		}
		defer s.Close()
		P := j.S("projects/p/instances/i")
		T := j.S("projects/p/instances/i/tables/t")
		s.AddParent(string(P))
		mk := func(t j.B) bt.Op {
			return bt.Op{Ev: "CreateTable", T: t, Parent: P, Fams: []bt.FamDef{{F: j.S("f"), Rule: bt.Rule{T: "maxver", N: 1}}, {F: j.S("g"), Rule: bt.Rule{T: "none"}}}}
		}
		c0 := mk(T)
		s.Exec(&c0)
		for i := 0; i < 150; i++ {
			w := bt.Op{Ev: "MutateRow", T: T, K: j.S(fmt.Sprintf("r%03d", i)), Now: 5000, Muts: []bt.Mut{{M: "set", F: j.S("f"), Q: j.S("q"), Ts: 1000, V: j.S("x")}, {M: "set", F: j.S("f"), Q: j.S("q"), Ts: 2000, V: j.S("y")}}}
			s.Exec(&w)
		}
		tmpT := func(i int) j.B { return j.S(fmt.Sprintf("projects/p/instances/i/tables/tmp%d", i%4)) }
		h := map[string]func(i int){
			"CreateTable": func(i int) { o := mk(tmpT(i)); s.Exec(&o) },
			"DeleteTable": func(i int) {
				o := bt.Op{Ev: "DeleteTable", T: tmpT(i)}
				s.Exec(&o)
				o2 := mk(tmpT(i))
				s.Exec(&o2)
			},
			"ListTables": func(i int) { o := bt.Op{Ev: "ListTables", Parent: P}; s.Exec(&o) },
			"GetTable": func(i int) {
				o := bt.Op{Ev: "GetTable", T: T}
				s.Exec(&o)
				o2 := bt.Op{Ev: "GetTable", T: tmpT(i)}
				s.Exec(&o2)
			},
			"ModifyFamilies": func(i int) {
				k := []string{"create", "drop"}[i/2%2]
				o := bt.Op{Ev: "ModifyFamilies", T: T, Mods: []bt.Mod{{K: k, F: j.S("h"), Rule: bt.Rule{T: "maxver", N: 2}}}}
				s.Exec(&o)
				// ... and on the tables that are being created and deleted meanwhile
				o2 := bt.Op{Ev: "ModifyFamilies", T: tmpT(i), Mods: []bt.Mod{{K: k, F: j.S("g"), Rule: bt.Rule{T: "maxver", N: 2}}}}
				s.Exec(&o2)
			},
			"DropRowRange": func(i int) {
				o := bt.Op{Ev: "DropRowRange", T: T, HasPrefix: true, Prefix: j.S(fmt.Sprintf("r%03d", i%150))}
				s.Exec(&o)
			},
			"GenerateToken": func(i int) {
				ctx, cancel := context.WithTimeout(context.Background(), 5*time.Second)
				defer cancel()
				_, _ = s.Admin.GenerateConsistencyToken(ctx, &btapb.GenerateConsistencyTokenRequest{Name: string(tmpT(i))})
			},
			"CheckConsistency": func(i int) {
				ctx, cancel := context.WithTimeout(context.Background(), 5*time.Second)
				defer cancel()
				_, _ = s.Admin.CheckConsistency(ctx, &btapb.CheckConsistencyRequest{Name: string(tmpT(i)), ConsistencyToken: "TokenFor-" + string(tmpT(i))})
			},
			"MutateRow": func(i int) {
				o := bt.Op{Ev: "MutateRow", T: T, K: j.S(fmt.Sprintf("r%03d", i%150)), Now: 5000, Muts: []bt.Mut{{M: "set", F: j.S("f"), Q: j.S("q"), Ts: j.N64(int64(i%5) * 1000), V: j.S("z")}}}
				s.Exec(&o)
				o2 := o
				o2.T = tmpT(i)
				s.Exec(&o2)
			},
			"MutateRows": func(i int) {
				o := bt.Op{Ev: "MutateRows", T: T, Now: 5000, Entries: []bt.Entry{{K: j.S(fmt.Sprintf("r%03d", i%150)), Muts: []bt.Mut{{M: "set", F: j.S("g"), Q: j.S("q"), Ts: 1000, V: j.S("m")}}},
					{K: j.S(fmt.Sprintf("r%03d", (i+1)%150)), Muts: []bt.Mut{{M: "delcol", F: j.S("g"), Q: j.S("q")}}}}}
				s.Exec(&o)
			},
			"CheckAndMutate": func(i int) {
				o := bt.Op{Ev: "CheckAndMutate", T: T, K: j.S(fmt.Sprintf("r%03d", i%150)), Now: 5000, Tm: []bt.Mut{{M: "set", F: j.S("g"), Q: j.S("c"), Ts: 1000, V: j.S("t")}}, Fm: []bt.Mut{{M: "delrow"}}}
				s.Exec(&o)
			},
			"ReadModifyWrite": func(i int) {
				o := bt.Op{Ev: "ReadModifyWrite", T: T, K: j.S(fmt.Sprintf("r%03d", i%150)), Now: 5000, Rules: []bt.RmwRule{{K: "incr", F: j.S("g"), Q: j.S("n"), Amt: j.B{0, 0, 0, 0, 0, 0, 0, 1}}}}
				s.Exec(&o)
			},
			"ReadRows": func(i int) {
				o := bt.Op{Ev: "ReadRows", T: T, Limit: 20}
				s.Exec(&o)
				o2 := bt.Op{Ev: "ReadRows", T: tmpT(i)}
				s.Exec(&o2)
			},
			"SampleRowKeys": func(i int) { o := bt.Op{Ev: "SampleRowKeys", T: T}; s.Exec(&o) },
			"GcPass":        func(i int) { o := bt.Op{Ev: "GcPass", T: T, Now: 9_000_000}; s.Exec(&o) },
		}
		f1, f2 := h[args[1]], h[args[2]]
		if f1 == nil || f2 == nil {
			fmt.Fprintln(os.Stderr, "unknown handler")
			return 2
		}
		run(f1)
		run(f2)
	case "gcs":
		dir := tmpDir()
		defer os.RemoveAll(dir)
		s, err := gcs.Start(engine("mem"), dir)
		if err != nil {
			panic(err)
		}
		defer s.Close()
		nc := gcs.NoConds()
		B := j.S("bkt")
		setup := []gcs.Op{{Ev: "CreateBucket", B: B}, {Ev: "CreateBucket", B: j.S("tmpb")},
			{Ev: "Upload", B: B, N: j.S("o1"), Proto: "multipart", Content: j.S("one"), Decl: "none", Attrs: []gcs.KV{{K: "ct", V: j.S("text/plain")}}, Meta: []gcs.KVB{{K: j.S("k"), V: j.S("v")}}, Conds: nc},
			{Ev: "Upload", B: B, N: j.S("o2"), Proto: "media", Content: j.S("two"), Decl: "none", Attrs: []gcs.KV{{K: "ct", V: j.S("text/plain")}}, Conds: nc},
			{Ev: "Upload", B: j.S("tmpb"), N: j.S("x"), Proto: "media", Content: j.S("x"), Decl: "none", Attrs: []gcs.KV{{K: "ct", V: j.S("text/plain")}}, Conds: nc},
			{Ev: "ResumableStart", B: B, N: j.S("res"), Decl: "none", Conds: nc}}
		evs := s.Run(0, setup)
		id := evs[len(evs)-1].Id
		ex := func(op gcs.Op) { s.ExecHdr(&op, nil) }
		h := map[string]func(i int){
			"CreateBucket": func(i int) { ex(gcs.Op{Ev: "CreateBucket", B: j.S("tmpb")}) },
			"DeleteBucket": func(i int) {
				ex(gcs.Op{Ev: "DeleteBucket", B: j.S("tmpb")})
				ex(gcs.Op{Ev: "CreateBucket", B: j.S("tmpb")})
			},
			"Upload": func(i int) {
				ex(gcs.Op{Ev: "Upload", B: B, N: j.S("o1"), Proto: "multipart", Content: j.S(fmt.Sprint(i)), Decl: "none", Attrs: []gcs.KV{{K: "ct", V: j.S("text/plain")}}, Meta: []gcs.KVB{{K: j.S("k"), V: j.S("v")}}, Conds: nc})
				ex(gcs.Op{Ev: "Upload", B: j.S("tmpb"), N: j.S("x"), Proto: "media", Content: j.S("x"), Decl: "none", Attrs: []gcs.KV{{K: "ct", V: j.S("text/plain")}}, Conds: nc})
			},
			"Patch": func(i int) {
				ex(gcs.Op{Ev: "Patch", B: B, N: j.S("o1"), Meta: []gcs.KVB{{K: j.S("k"), V: j.S(fmt.Sprint(i))}, {K: j.S(fmt.Sprint("n", i%3)), V: j.S("1")}}, Conds: nc})
			},
			"Delete": func(i int) {
				ex(gcs.Op{Ev: "Delete", B: B, N: j.S("o2"), Conds: nc})
				ex(gcs.Op{Ev: "Upload", B: B, N: j.S("o2"), Proto: "media", Content: j.S("two"), Decl: "none", Attrs: []gcs.KV{{K: "ct", V: j.S("text/plain")}}, Conds: nc})
			},
			"Compose": func(i int) {
				ex(gcs.Op{Ev: "Compose", B: B, N: j.S("o2"), Srcs: []gcs.Src{{N: j.S("o1"), Gm: gcs.Unset()}, {N: j.S("o2"), Gm: gcs.Unset()}}, Conds: nc})
			},
			"Copy": func(i int) {
				ex(gcs.Op{Ev: "Copy", B: B, N: j.S("o1"), Db: B, Dn: j.S("o1copy")})
				ex(gcs.Op{Ev: "Patch", B: B, N: j.S("o1copy"), Meta: []gcs.KVB{{K: j.S("c"), V: j.S("1")}}, Conds: nc})
			},
			"GetMeta":  func(i int) { ex(gcs.Op{Ev: "GetMeta", B: B, N: j.S("o1")}) },
			"GetMedia": func(i int) { ex(gcs.Op{Ev: "GetMedia", B: B, N: j.S("o1"), Form: "api"}) },
			"List":     func(i int) { ex(gcs.Op{Ev: "List", B: B, MaxResults: 2}); ex(gcs.Op{Ev: "List", B: j.S("tmpb")}) },
			"ResumableChunk": func(i int) {
				ex(gcs.Op{Ev: "ResumablePut", Id: id, Lo: 0, Total: -1, Data: j.S("abcdefgh")[:1+i%8]})
			},
		}
		f1, f2 := h[args[1]], h[args[2]]
		if f1 == nil || f2 == nil {
			fmt.Fprintln(os.Stderr, "unknown handler")
			return 2
		}
		run(f1)
		run(f2)
	default:
		return 2
	}
	wg.Wait()
	fmt.Printf("race %v: %d requests\n", args[:3], atomic.LoadInt64(&ops))
	return 0
}
