SPECIFICATION Spec
CONSTANTS
  MaxCells = 2
  Pairs = FALSE
  TwoKeys = FALSE
  DumpEdges = FALSE
  SampleK = 1
CONSTRAINT Constr
VIEW View
INVARIANT InvCanonical
PROPERTY FailedIsNoop
CHECK_DEADLOCK FALSE
