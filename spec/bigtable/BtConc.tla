-------------------------------- MODULE BtConc ------------------------------
(***************************************************************************)
(* Concurrency structure of the Bigtable emulator on ONE table (C06, C16   *)
(* races, C18): in-flight requests are processes; the table has one        *)
(* reader/writer lock; every request is a sequence of steps that coincide  *)
(* with the instrumentation points of the implementation:                  *)
(*                                                                         *)
(*  write RPC:  Start -> AcqW (.locked) -> Read (.afterRead: private copy) *)
(*              -> Commit (.afterWrite: the row changes here, once)        *)
(*              -> Rel (.done) -> Respond                                  *)
(*  scan:       Start -> AcqR -> Snap (snapshot of the rows)               *)
(*              -> Emit* ; at a batch boundary RelR (.window) ; AcqR       *)
(*              (.relocked) -> ... -> RelR (.done) -> Respond              *)
(*  GC pass:    Start -> AcqW -> KeySnap -> per row: Collect (re-reads the *)
(*              row under the lock) ; every B rows RelW (.window) ; AcqW   *)
(*              -> RelW                                                    *)
(*                                                                         *)
(* The data is abstract: a row is [n, flag, a, b, old]: n a counter        *)
(* (increments), flag (check-and-set), a = b is the invariant of a         *)
(* two-mutation request, old = an "old version" a GC pass removes.         *)
(* With Relaxed = TRUE the lock guards are dropped: TLC then reaches the   *)
(* lost update / double match / torn read / lost write -- evidence that    *)
(* the instrumentation points are where preemption matters, and the source *)
(* of the adversarial schedules the harness tries on the real code.        *)
(***************************************************************************)
EXTENDS Naturals, Sequences, FiniteSets, TLC

CONSTANTS Procs,         \* process -> kind: "incr" | "cas" | "mut2" | "read" | "scan" | "gc" | "del"
          Kind, Keys, RowOf,  \* RowOf[p]: the row a single-row request works on
          Batch,         \* rows per scan / GC batch between two lock reversals
          Relaxed, GcStale    \* GcStale: the GC pass writes back its start-of-pass copy (the defect B7)

VARIABLES lock,      \* [w |-> process or "none", r |-> set of readers]
          rows,      \* key -> row record (present or not)
          pc, copy, snap, pos, out, resp, acked
vars == <<lock, rows, pc, copy, snap, pos, out, resp, acked>>

Row0 == [present |-> TRUE, n |-> 0, flag |-> FALSE, a |-> 0, b |-> 0, old |-> TRUE]
Absent == [present |-> FALSE, n |-> 0, flag |-> FALSE, a |-> 0, b |-> 0, old |-> FALSE]
None == 0          \* no writer (processes are positive numbers)
KeySeq == CHOOSE s \in [1..Cardinality(Keys) -> Keys] : \A i, j \in 1..Cardinality(Keys) : i < j => s[i] < s[j]

Init == /\ lock = [w |-> None, r |-> {}]
        /\ rows = [k \in Keys |-> Row0]
        /\ pc = [p \in Procs |-> "init"] /\ copy = [p \in Procs |-> Absent]
        /\ snap = [p \in Procs |-> <<>>] /\ pos = [p \in Procs |-> 0] /\ out = [p \in Procs |-> <<>>]
        /\ resp = [p \in Procs |-> "none"] /\ acked = {}

Writers == {p \in Procs : Kind[p] \in {"incr", "cas", "mut2", "del"}}
CanW(p) == Relaxed \/ (lock.w = None /\ lock.r = {})
CanR(p) == Relaxed \/ lock.w = None

\* the request is issued and reaches the table lock (.beforeLock)
Begin(p) == /\ pc[p] = "init" /\ pc' = [pc EXCEPT ![p] = "start"]
            /\ UNCHANGED <<lock, rows, copy, snap, pos, out, resp, acked>>

(* ---- single-row writes ---- *)
AcqW(p) == /\ pc[p] = "start" /\ Kind[p] \in {"incr", "cas", "mut2", "del", "gc"} /\ CanW(p)
           /\ lock' = [lock EXCEPT !.w = p] /\ pc' = [pc EXCEPT ![p] = "locked"]
           /\ UNCHANGED <<rows, copy, snap, pos, out, resp, acked>>
Read(p) == /\ pc[p] = "locked" /\ p \in Writers
           /\ copy' = [copy EXCEPT ![p] = rows[RowOf[p]]] /\ pc' = [pc EXCEPT ![p] = "read"]
           /\ UNCHANGED <<lock, rows, snap, pos, out, resp, acked>>
NewRow(p, r) ==
  CASE Kind[p] = "incr" -> IF ~r.present THEN [Row0 EXCEPT !.n = 1, !.old = FALSE] ELSE [r EXCEPT !.n = @ + 1]
    [] Kind[p] = "cas"  -> IF r.present /\ ~r.flag THEN [r EXCEPT !.flag = TRUE] ELSE r
    [] Kind[p] = "mut2" -> IF ~r.present THEN [Row0 EXCEPT !.a = 1, !.b = 1, !.old = FALSE] ELSE [r EXCEPT !.a = @ + 1, !.b = @ + 1]
    [] OTHER -> Absent
Commit(p) == /\ pc[p] = "read" /\ (Relaxed \/ lock.w = p)
             /\ rows' = [rows EXCEPT ![RowOf[p]] = NewRow(p, copy[p])]
             /\ resp' = [resp EXCEPT ![p] = IF Kind[p] = "cas" THEN (IF copy[p].present /\ ~copy[p].flag THEN "matched" ELSE "nomatch") ELSE "ok"]
             /\ pc' = [pc EXCEPT ![p] = "written"]
             /\ UNCHANGED <<lock, copy, snap, pos, out, acked>>
RelW(p) == /\ pc[p] = "written" /\ p \in Writers
           /\ lock' = [lock EXCEPT !.w = IF lock.w = p THEN None ELSE lock.w]
           /\ pc' = [pc EXCEPT ![p] = "done"] /\ acked' = acked \cup {p}
           /\ UNCHANGED <<rows, copy, snap, pos, out, resp>>

(* ---- reads and scans: "read" is a scan of its own row only ---- *)
ScanKeys(p) == IF Kind[p] = "read" THEN <<RowOf[p]>> ELSE KeySeq
AcqR(p) == /\ pc[p] \in {"start", "window"} /\ Kind[p] \in {"read", "scan"} /\ CanR(p)
           /\ lock' = [lock EXCEPT !.r = @ \cup {p}]
           /\ pc' = [pc EXCEPT ![p] = IF pc[p] = "start" THEN "rlocked" ELSE "emitting"]
           /\ UNCHANGED <<rows, copy, snap, pos, out, resp, acked>>
Snap(p) == /\ pc[p] = "rlocked"
           /\ snap' = [snap EXCEPT ![p] = [i \in 1..Len(ScanKeys(p)) |-> [k |-> ScanKeys(p)[i], row |-> rows[ScanKeys(p)[i]]]]]
           /\ pos' = [pos EXCEPT ![p] = 0] /\ pc' = [pc EXCEPT ![p] = "emitting"]
           /\ UNCHANGED <<lock, rows, copy, out, resp, acked>>
Emit(p) == /\ pc[p] = "emitting" /\ pos[p] < Len(snap[p])
           /\ pos' = [pos EXCEPT ![p] = @ + 1]
           /\ out' = [out EXCEPT ![p] = IF ~snap[p][pos[p] + 1].row.present THEN @ ELSE Append(@, snap[p][pos[p] + 1])]
           /\ pc' = [pc EXCEPT ![p] = IF (pos[p] + 1) % Batch = 0 /\ pos[p] + 1 < Len(snap[p]) THEN "batchEnd" ELSE "emitting"]
           /\ UNCHANGED <<lock, rows, copy, snap, resp, acked>>
Window(p) == /\ pc[p] = "batchEnd" /\ Kind[p] \in {"read", "scan"}
             /\ lock' = [lock EXCEPT !.r = @ \ {p}] /\ pc' = [pc EXCEPT ![p] = "window"]
             /\ UNCHANGED <<rows, copy, snap, pos, out, resp, acked>>
RelR(p) == /\ pc[p] = "emitting" /\ pos[p] = Len(snap[p]) /\ Kind[p] \in {"read", "scan"}
           /\ lock' = [lock EXCEPT !.r = @ \ {p}] /\ pc' = [pc EXCEPT ![p] = "done"] /\ resp' = [resp EXCEPT ![p] = "ok"]
           /\ UNCHANGED <<rows, copy, snap, pos, out, acked>>

(* ---- GC pass: removes the "old" version of every row; a row left without content disappears ---- *)
Collected(r) == IF ~r.present THEN Absent ELSE IF r.n = 0 /\ ~r.flag /\ r.a = 0 THEN Absent ELSE [r EXCEPT !.old = FALSE]
GcSnap(p) == /\ pc[p] = "locked" /\ Kind[p] = "gc"
             /\ snap' = [snap EXCEPT ![p] = [i \in 1..Len(KeySeq) |-> [k |-> KeySeq[i], row |-> rows[KeySeq[i]]]]]
             /\ pos' = [pos EXCEPT ![p] = 0] /\ pc' = [pc EXCEPT ![p] = "collecting"]
             /\ UNCHANGED <<lock, rows, copy, out, resp, acked>>
GcRow(p) == /\ pc[p] = "collecting" /\ pos[p] < Len(snap[p]) /\ (Relaxed \/ lock.w = p)
            /\ LET k == snap[p][pos[p] + 1].k
                   src == IF GcStale THEN snap[p][pos[p] + 1].row ELSE rows[k]      \* intended: the row as it is NOW
               IN rows' = [rows EXCEPT ![k] = IF ~src.present THEN rows[k] ELSE Collected(src)]
            /\ pos' = [pos EXCEPT ![p] = @ + 1]
            /\ pc' = [pc EXCEPT ![p] = IF (pos[p] + 1) % Batch = 0 /\ pos[p] + 1 < Len(snap[p]) THEN "batchEnd" ELSE "collecting"]
            /\ UNCHANGED <<lock, copy, snap, out, resp, acked>>
GcWindow(p) == /\ pc[p] = "batchEnd" /\ Kind[p] = "gc"
               /\ lock' = [lock EXCEPT !.w = IF lock.w = p THEN None ELSE lock.w] /\ pc' = [pc EXCEPT ![p] = "gcwindow"]
               /\ UNCHANGED <<rows, copy, snap, pos, out, resp, acked>>
GcReacq(p) == /\ pc[p] = "gcwindow" /\ CanW(p)
              /\ lock' = [lock EXCEPT !.w = p] /\ pc' = [pc EXCEPT ![p] = "collecting"]
              /\ UNCHANGED <<rows, copy, snap, pos, out, resp, acked>>
GcRel(p) == /\ pc[p] = "collecting" /\ pos[p] = Len(snap[p]) /\ Kind[p] = "gc"
            /\ lock' = [lock EXCEPT !.w = IF lock.w = p THEN None ELSE lock.w] /\ pc' = [pc EXCEPT ![p] = "done"]
            /\ resp' = [resp EXCEPT ![p] = "ok"]
            /\ UNCHANGED <<rows, copy, snap, pos, out, acked>>

Step(p) == Begin(p) \/ AcqW(p) \/ Read(p) \/ Commit(p) \/ RelW(p) \/ AcqR(p) \/ Snap(p) \/ Emit(p) \/ Window(p) \/ RelR(p)
           \/ GcSnap(p) \/ GcRow(p) \/ GcWindow(p) \/ GcReacq(p) \/ GcRel(p)
Next == \E p \in Procs : Step(p)
Spec == Init /\ [][Next]_vars
FairSpec == Spec /\ \A p \in Procs : WF_vars(Step(p))

(******************************* properties *********************************)
AllDone == \A p \in Procs : pc[p] = "done"
Count(kind) == Cardinality({p \in Procs : Kind[p] = kind})
\* (i) N concurrent increments add exactly N (per row)
NoLostIncrement == AllDone /\ Count("gc") = 0 /\ Count("del") = 0 =>
   \A k \in Keys : rows[k].present => rows[k].n = Cardinality({p \in Procs : Kind[p] = "incr" /\ RowOf[p] = k})
\* (ii) concurrent check-and-sets on one row: at most one acts on the predicate state only one could have seen
OneWinner == \A k \in Keys : Cardinality({p \in Procs : Kind[p] = "cas" /\ RowOf[p] = k /\ resp[p] = "matched"}) <= 1
\* (iii) readers never observe half of a two-mutation request
NoTornRead == \A p \in Procs : \A i \in 1..Len(out[p]) : out[p][i].row.a = out[p][i].row.b
\* scans: strictly ascending, no duplicates
ScanOrdered == \A p \in Procs : \A i, j \in 1..Len(out[p]) : i < j => out[p][i].k < out[p][j].k
\* GC: a write acknowledged while (or before) the pass runs is not lost or reverted by it
AckedWritesSurvive == AllDone /\ Count("del") = 0 =>
   \A k \in Keys : /\ (\E p \in Procs : Kind[p] \in {"incr", "mut2"} /\ RowOf[p] = k) => rows[k].present
                   /\ rows[k].present => /\ rows[k].n = Cardinality({p \in Procs : Kind[p] = "incr" /\ RowOf[p] = k})
                                            /\ rows[k].a = Cardinality({p \in Procs : Kind[p] = "mut2" /\ RowOf[p] = k})
\* a deleted row is not resurrected by a pass
NoResurrection == AllDone => \A p \in Procs : (Kind[p] = "del" /\ ~(\E q \in Procs : q # p /\ Kind[q] \in {"incr", "mut2"} /\ RowOf[q] = RowOf[p])) => ~rows[RowOf[p]].present
\* mutual exclusion of the table lock (meaningful in the safe configuration)
LockOK == (lock.w # None => lock.r = {}) /\ Cardinality({p \in Procs : pc[p] \in {"locked", "read", "written", "collecting", "batchEnd"} /\ Kind[p] \notin {"read", "scan"}}) <= 1
\* liveness: every request finishes; a pass never blocks clients indefinitely
Termination == <>AllDone
=============================================================================
