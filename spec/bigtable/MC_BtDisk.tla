---- MODULE MC_BtDisk ----
EXTENDS BtDisk
====
