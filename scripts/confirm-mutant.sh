#!/bin/bash
# usage: scripts/confirm-mutant.sh <dir with patch.diff, meta.json, demo> <seeded-id>
# Confirms a seeded change in a scratch worktree of /repo (outside /repo and /verif), then keeps it as /verif/seeded/<id>/:
#  (a) clean tree + demonstration passes, (b) change + demonstration fails, (c) change + the module's existing test suite passes.
src="$1"; id="$2"
export GOFLAGS=-mod=mod GOPROXY=off GOSUMDB=off GOTOOLCHAIN=local
wt=$(mktemp -d /tmp/confirm.XXXXXX); rmdir "$wt"
git -C /repo worktree add -q --detach "$wt" HEAD || exit 2
cleanup() { git -C /repo worktree remove --force "$wt" 2>/dev/null; rm -rf "$wt"; }
trap cleanup EXIT
read -r demo dest cmd <<<"$(python3 - "$src/meta.json" <<'PY'
import json,sys
m=json.load(open(sys.argv[1])); print(m['demo_file'], m['demo_dest'], json.dumps(m['demo_cmd']))
PY
)"
cmd=$(python3 -c "import json,sys; print(json.loads(sys.argv[1]))" "$cmd")
cp "$src/$demo" "$wt/$dest/" || exit 2
a=$(cd "$wt" && bash -c "$cmd" >/tmp/confirm.a.log 2>&1; echo $?)
git -C "$wt" checkout -q -- '*/go.mod' '*/go.sum' 2>/dev/null
if ! git -C "$wt" apply "$src/patch.diff"; then echo "$id: patch does not apply"; exit 1; fi
b=$(cd "$wt" && bash -c "$cmd" >/tmp/confirm.b.log 2>&1; echo $?)
rm -f "$wt/$dest/$demo"
mods=$(git -C "$wt" diff --name-only | grep -v 'go\.\(mod\|sum\)$' | cut -d/ -f1 | sort -u)
c=0
for m in $mods; do (cd "$wt/$m" && go test -vet=off -count=1 -timeout 25m ./... >/tmp/confirm.c.log 2>&1) || c=1; done
echo "$id: clean+demo exit=$a  change+demo exit=$b  change+suite exit=$c"
if [ "$a" = 0 ] && [ "$b" != 0 ] && [ "$c" = 0 ]; then
  mkdir -p /verif/seeded/$id && cp "$src/patch.diff" "$src/$demo" /verif/seeded/$id/
  python3 - "$src/meta.json" /verif/seeded/$id/meta.json "$id" <<'PY'
import json,sys
m=json.load(open(sys.argv[1])); m['id']=sys.argv[3]
m['confirmed']={"how":"scripts/confirm-mutant.sh in a scratch worktree of /repo HEAD","clean_plus_demo":"pass","change_plus_demo":"fail","change_plus_existing_suite":"pass"}
json.dump(m,open(sys.argv[2],'w'),indent=1)
PY
  echo "$id: kept"
else
  echo "$id: NOT kept (see /tmp/confirm.[abc].log)"; exit 1
fi
