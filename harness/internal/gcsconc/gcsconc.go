// Package gcsconc executes schedules of concurrent HTTP requests on the real Cloud Storage emulator: the
// verification hooks of gcsemu are gates at which the request's handler waits for the scheduler, and every hook
// logs an event. The recorded run is validated by spec/gcs/GcsConcTrace.tla.
package gcsconc

import (
	"bytes"
	"net/http"
	"runtime"
	"strconv"
	"strings"
	"sync"
	"time"

	"github.com/fullstorydev/emulators/storage/gcsemu"

	"verif/harness/internal/gcs"
	"verif/harness/internal/j"
)

type Event struct {
	P       string    `json:"p"`
	Pt      string    `json:"pt"`
	B       j.B       `json:"b"`
	N       j.B       `json:"n"`
	Gen     int64     `json:"gen"`
	Metagen int64     `json:"metagen"`
	Op      *gcs.Op   `json:"op,omitempty"`
	Resp    *gcs.Resp `json:"resp,omitempty"`
}

type Run struct {
	ID      int      `json:"id"`
	Store   string   `json:"store"`
	Setup   []gcs.Op `json:"setup"`
	Events  []Event  `json:"events"`
	Final   *gcs.Obs `json:"final"`
	Blocked []string `json:"blocked,omitempty"`
	Stuck   []string `json:"stuck,omitempty"`
	Aborted []string `json:"aborted,omitempty"` // requests whose connection was closed without a reply (handler panic)
}

type Proc struct {
	Name string
	Op   gcs.Op
}

var parking = map[string]bool{"start": true, "locked": true, "afterCheck": true, "afterStore": true, "beforeRespRead": true,
	"read.start": true, "Add.afterContent": true, "Get.afterMeta": true}

type proc struct {
	Proc
	gate    chan struct{}
	arrived chan string
	started bool
	parked  bool
	done    bool
	gated   bool

	reader     bool // its request only reads (media, metadata, listing)
	depth      int  // nesting depth of store read calls of its handler goroutine
	storeCalls int  // top-level store read calls so far
}

type runner struct {
	mu     sync.Mutex
	events []Event
	procs  map[string]*proc
}

var (
	byGoroutine sync.Map // goroutine id -> *binding (set at Handler.start, cleared at Handler.end)
	active      sync.Map // host:port -> *runner
	hookOnce    sync.Once
)

type binding struct {
	r *runner
	p *proc
}

func goid() int64 {
	var buf [64]byte
	n := runtime.Stack(buf[:], false)
	b := buf[len("goroutine "):n]
	i := bytes.IndexByte(b, ' ')
	id, _ := strconv.ParseInt(string(b[:i]), 10, 64)
	return id
}

func installHook() {
	hookOnce.Do(func() {
		gcsemu.VerifHook = func(point string, kv ...interface{}) {
			switch point {
			case "Handler.start":
				req, ok := kv[0].(*http.Request)
				if !ok {
					return
				}
				name := req.Header.Get("X-Verif-Proc")
				if name == "" {
					return
				}
				v, ok := active.Load(req.Host)
				if !ok {
					return
				}
				r := v.(*runner)
				r.mu.Lock()
				p := r.procs[name]
				r.mu.Unlock()
				if p != nil {
					byGoroutine.Store(goid(), &binding{r, p})
					if p.gated {
						p.arrived <- "start"
						<-p.gate
					}
				}
				return
			case "Handler.end":
				byGoroutine.Delete(goid())
				return
			}
			v, ok := byGoroutine.Load(goid())
			if !ok {
				return
			}
			b := v.(*binding)
			b.r.at(b.p, point, kv)
		}
	})
}

func (r *runner) at(p *proc, point string, kv []interface{}) {
	// store.enter / store.ret bracket the store's object reads. They are not events of the specification; for a
	// reading request they are a gate BETWEEN two top-level store calls of one handler (an unmodified read makes
	// exactly one, so it never waits here; nested calls -- the file store's Get calls GetMeta -- do not count).
	if point == "store.enter" || point == "store.ret" {
		if !p.reader {
			return
		}
		if point == "store.ret" {
			p.depth--
			// ... and a gate right after a store read made inside another one has returned (between the parts of a
			// composite read)
			if p.gated && p.depth >= 1 {
				p.arrived <- "store"
				<-p.gate
			}
			return
		}
		p.depth++
		p.storeCalls++
		// a gate before every store read but the first one of the request: between two top-level calls, and also
		// inside a store read that is itself made of several (the file store's Get reads the metadata, then the content:
		// the known torn read; the memory store's Get is one lookup and must stay one)
		if p.gated && p.storeCalls > 1 {
			p.arrived <- "store"
			<-p.gate
		}
		return
	}
	pt := point
	if i := strings.Index(point, "."); i >= 0 && (strings.HasPrefix(point, "write.") || strings.HasPrefix(point, "filestore.")) {
		pt = point[i+1:]
	}
	e := Event{P: p.Name, Pt: pt}
	// args: (store, bucket, filename) or (bucket, filename)
	var store gcsemu.Store
	var strs []string
	for _, v := range kv {
		switch x := v.(type) {
		case gcsemu.Store:
			store = x
		case string:
			strs = append(strs, x)
		}
	}
	if len(strs) >= 2 {
		e.B, e.N = j.S(strs[0]), j.S(strs[1])
	}
	if pt == "afterStore" && store != nil {
		// what the store holds right now, still inside the object's lock
		if m, err := store.GetMeta("", strs[0], strs[1]); err == nil && m != nil {
			e.Gen, e.Metagen = m.Generation, m.Metageneration
		}
	}
	r.mu.Lock()
	r.events = append(r.events, e)
	r.mu.Unlock()
	if p.gated && parking[pt] {
		p.arrived <- pt
		<-p.gate
	}
}

func (r *runner) log(e Event) {
	r.mu.Lock()
	r.events = append(r.events, e)
	r.mu.Unlock()
}

type Options struct {
	Wait time.Duration
	Free bool
}

// Execute runs setup sequentially, then the concurrent requests under the schedule (sequence of process names).
func Execute(id int, srv *gcs.Server, setup []gcs.Op, procs []Proc, sched []string, opt Options) *Run {
	installHook()
	run := &Run{ID: id, Store: srv.Store}
	evs := srv.Run(0, setup)
	for _, e := range evs[1:] {
		e.Resp, e.Obs = nil, nil
		run.Setup = append(run.Setup, e)
	}
	r := &runner{procs: map[string]*proc{}}
	host := strings.TrimPrefix(srv.URL, "http://")
	active.Store(host, r)
	defer active.Delete(host)
	for _, pr := range procs {
		r.procs[pr.Name] = &proc{Proc: pr, gate: make(chan struct{}), arrived: make(chan string, 8), gated: !opt.Free,
			reader: pr.Op.Ev == "GetMedia" || pr.Op.Ev == "GetMeta" || pr.Op.Ev == "List"}
	}
	var wg sync.WaitGroup
	start := func(p *proc) {
		p.started = true
		wg.Add(1)
		go func() {
			defer wg.Done()
			op := p.Op
			srv.Prepare(&op) // resolve symbolic condition values from what was read back after the setup
			inv := op
			r.log(Event{P: p.Name, Pt: "inv", Op: &inv})
			srv.ExecHdr(&op, map[string]string{"X-Verif-Proc": p.Name})
			if op.Resp.Aborted {
				r.mu.Lock()
				run.Aborted = append(run.Aborted, p.Name+": "+op.Resp.Raw)
				r.mu.Unlock()
			}
			r.log(Event{P: p.Name, Pt: "ret", Resp: op.Resp})
			p.arrived <- "exit"
		}()
	}
	wait := opt.Wait
	if wait == 0 {
		wait = 30 * time.Millisecond
	}
	arrive := func(p *proc, what string) {
		select {
		case pt := <-p.arrived:
			if pt == "exit" {
				p.done, p.parked = true, false
			} else {
				p.parked = true
			}
		case <-time.After(wait):
			run.Blocked = append(run.Blocked, p.Name+"@"+what)
		}
	}
	drain := func() {
		for _, p := range r.procs {
			for more := true; more; {
				select {
				case pt := <-p.arrived:
					if pt == "exit" {
						p.done, p.parked = true, false
					} else {
						p.parked = true
					}
				default:
					more = false
				}
			}
		}
	}
	if opt.Free {
		for _, pr := range procs {
			start(r.procs[pr.Name])
		}
		wg.Wait()
	} else {
		for _, name := range sched {
			p := r.procs[name]
			if p == nil || p.done {
				continue
			}
			drain()
			if !p.started {
				start(p)
				arrive(p, "start")
				continue
			}
			if p.parked {
				p.parked = false
				p.gate <- struct{}{}
				arrive(p, "step")
			}
		}
		deadline := time.Now().Add(20 * time.Second)
		for time.Now().Before(deadline) {
			drain()
			all := true
			for _, pr := range procs {
				p := r.procs[pr.Name]
				if !p.started {
					start(p)
				}
				if p.done {
					continue
				}
				all = false
				if p.parked {
					p.parked = false
					p.gate <- struct{}{}
					select {
					case pt := <-p.arrived:
						if pt == "exit" {
							p.done = true
						} else {
							p.parked = true
						}
					case <-time.After(wait):
					}
				}
			}
			if all {
				break
			}
		}
		for _, pr := range procs {
			if !r.procs[pr.Name].done {
				run.Stuck = append(run.Stuck, pr.Name)
			}
		}
		if len(run.Stuck) == 0 {
			wg.Wait()
		}
	}
	r.mu.Lock()
	run.Events = append([]Event(nil), r.events...)
	r.mu.Unlock()
	if len(run.Stuck) == 0 {
		run.Final = srv.Observe()
	}
	// generations -> ranks over the whole run
	gcs.RankVisit(func(f func(*int64)) {
		gcs.VisitOps(run.Setup, f)
		for i := range run.Events {
			e := &run.Events[i]
			f(&e.Gen)
			if e.Op != nil {
				one := []gcs.Op{*e.Op}
				gcs.VisitOps(one, f)
				*e.Op = one[0]
			}
			if e.Resp != nil {
				one := []gcs.Op{{Resp: e.Resp}}
				gcs.VisitOps(one, f)
			}
		}
		gcs.VisitObs(run.Final, f)
	})
	return run
}
