------------------------------ MODULE MC_GcsList ----------------------------
(***************************************************************************)
(* C11: the universe of list requests: every subset of a seven-name        *)
(* universe (nested "directories", names that sort below '/') x prefixes x *)
(* delimiters (incl. multi-character) x page sizes.  TLC checks the        *)
(* denotation's sanity for every case and prints (sampled) the cases for   *)
(* the harness to run against the real emulator on both stores.            *)
(***************************************************************************)
EXTENDS GcsList, Json, TLC

CONSTANTS DumpEdges, SampleK, MaxPage

VARIABLE c

A == <<97>>  ADotT == <<97, 46, 116>>  ASlB == <<97, 47, 98>>  ASlC == <<97, 47, 99>>  AB == <<97, 98>>
BCD == <<98, 47, 99, 47, 100>>  BCE == <<98, 47, 99, 46, 101>>
Universe == {A, ADotT, ASlB, ASlC, AB, BCD, BCE}
\* a name that is a proper "directory" prefix of another cannot coexist with it in the file store
FileOK(S) == ~(\E x \in S, y \in S : x # y /\ IsPrefixB(x \o <<47>>, y))
Prefixes0 == {<<>>, A, <<97, 47>>, <<98, 47, 99>>, <<122>>}
Delims == {<<>>, <<47>>, <<47, 99>>, <<46>>}

Init == c \in [names : SUBSET Universe, prefix : Prefixes0, delim : Delims, maxResults : 1..MaxPage]
Next == UNCHANGED c
Spec == Init /\ [][Next]_c

InvDenotation == DenotationOK(c.names, c.prefix, c.delim)
\* items and collapsed names partition the matching names
InvPartition == ItemNames(c.names, c.prefix, c.delim) \subseteq Matching(c.names, c.prefix)
Constr == (DumpEdges /\ RandomElement(1..SampleK) = 1) =>
            PrintT(<<"CASE", ToJson([names |-> SortBytes(c.names), prefix |-> c.prefix, delim |-> c.delim, maxResults |-> c.maxResults, fileOK |-> FileOK(c.names)])>>)
=============================================================================
