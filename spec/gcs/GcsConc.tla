-------------------------------- MODULE GcsConc -----------------------------
(***************************************************************************)
(* Concurrency structure of the Cloud Storage emulator on ONE object       *)
(* (C07).  In-flight requests are processes.  A mutation runs under the    *)
(* per-object lock of the lock map:                                        *)
(*    Begin -> Lock (.locked) -> Check (.afterCheck: metadata read,        *)
(*    preconditions validated) -> Store (.afterStore: the commit)          *)
(*    -> Unlock (.done) -> RespRead (the reply re-reads the metadata,      *)
(*    outside the lock) -> Respond                                         *)
(* A read takes no lock: the memory store returns an atomic snapshot; the  *)
(* file store reads metadata and content in two steps (TwoStepRead).       *)
(* The object is abstract: [present, gen, metagen, val] where val is the   *)
(* identity of the writer whose content it holds.                          *)
(* With Relaxed = TRUE the lock guard is dropped: TLC then reaches the     *)
(* double success / lost patch -- the source of adversarial schedules.     *)
(***************************************************************************)
EXTENDS Naturals, Sequences, FiniteSets, TLC

CONSTANTS Procs, Kind,      \* Kind[p] \in {"putIfGen", "putIfAbsent", "patchIfMeta", "delIfGen", "put", "del", "get"}
          StartPresent,     \* the object exists at the start (generation 1, metageneration 1)
          Relaxed, TwoStepRead, TornWrite     \* TornWrite: the store writes content and metadata in two steps (file store)

VARIABLES obj, lock, pc, seen, resp, nextGen, got, half
vars == <<obj, lock, pc, seen, resp, nextGen, got, half>>

None == 0
Obj0 == IF StartPresent THEN [present |-> TRUE, gen |-> 1, metagen |-> 1, val |-> 0] ELSE [present |-> FALSE, gen |-> 0, metagen |-> 0, val |-> 0]
Init == /\ obj = Obj0 /\ lock = None /\ pc = [p \in Procs |-> "init"] /\ seen = [p \in Procs |-> Obj0]
        /\ resp = [p \in Procs |-> "none"] /\ nextGen = 2 /\ got = [p \in Procs |-> Obj0] /\ half = None

Writers == {p \in Procs : Kind[p] # "get"}
Begin(p) == pc[p] = "init" /\ pc' = [pc EXCEPT ![p] = "start"] /\ UNCHANGED <<obj, lock, seen, resp, nextGen, got, half>>
Lock(p) == /\ pc[p] = "start" /\ p \in Writers /\ (Relaxed \/ lock = None)
           /\ lock' = p /\ pc' = [pc EXCEPT ![p] = "locked"] /\ UNCHANGED <<obj, seen, resp, nextGen, got, half>>
\* the conditions each kind carries refer to the INITIAL object (what the client knew when it sent the request)
CondOK(p, o) == CASE Kind[p] = "putIfGen"    -> o.present /\ o.gen = Obj0.gen
                  [] Kind[p] = "putIfAbsent" -> ~o.present
                  [] Kind[p] = "patchIfMeta" -> o.present /\ o.metagen = Obj0.metagen
                  [] Kind[p] = "delIfGen"    -> o.present /\ o.gen = Obj0.gen
                  [] OTHER -> TRUE
Check(p) == /\ pc[p] = "locked"
            /\ seen' = [seen EXCEPT ![p] = obj]
            /\ IF CondOK(p, obj) THEN pc' = [pc EXCEPT ![p] = "checked"] /\ UNCHANGED resp
               ELSE pc' = [pc EXCEPT ![p] = "failed"] /\ resp' = [resp EXCEPT ![p] = "precondition"]
            /\ UNCHANGED <<obj, lock, nextGen, got, half>>
Store(p) == /\ pc[p] = "checked" /\ (Relaxed \/ lock = p)
            /\ obj' = CASE Kind[p] \in {"putIfGen", "putIfAbsent", "put"} -> [present |-> TRUE, gen |-> nextGen, metagen |-> 1, val |-> p]
                        [] Kind[p] = "patchIfMeta" -> [seen[p] EXCEPT !.metagen = @ + 1]          \* writes back what it read, patched
                        [] OTHER -> [present |-> FALSE, gen |-> 0, metagen |-> 0, val |-> 0]
            /\ nextGen' = nextGen + 1 /\ resp' = [resp EXCEPT ![p] = "ok"] /\ pc' = [pc EXCEPT ![p] = "stored"]
            /\ UNCHANGED <<lock, seen, got, half>>
Unlock(p) == /\ pc[p] \in {"stored", "failed"}
             /\ lock' = (IF lock = p THEN None ELSE lock) /\ pc' = [pc EXCEPT ![p] = "done"]
             /\ UNCHANGED <<obj, seen, resp, nextGen, got, half>>
\* lock-free reads
ReadAll(p) == /\ pc[p] = "start" /\ Kind[p] = "get" /\ ~TwoStepRead
              /\ got' = [got EXCEPT ![p] = obj] /\ pc' = [pc EXCEPT ![p] = "done"] /\ resp' = [resp EXCEPT ![p] = "ok"]
              /\ UNCHANGED <<obj, lock, seen, nextGen, half>>
ReadMeta(p) == /\ pc[p] = "start" /\ Kind[p] = "get" /\ TwoStepRead
               /\ got' = [got EXCEPT ![p] = obj] /\ pc' = [pc EXCEPT ![p] = "metaRead"]
               /\ UNCHANGED <<obj, lock, seen, resp, nextGen, half>>
ReadContent(p) == /\ pc[p] = "metaRead"
                  /\ got' = [got EXCEPT ![p].val = obj.val] /\ pc' = [pc EXCEPT ![p] = "done"] /\ resp' = [resp EXCEPT ![p] = "ok"]
                  /\ UNCHANGED <<obj, lock, seen, nextGen, half>>

Step(p) == Begin(p) \/ Lock(p) \/ Check(p) \/ Store(p) \/ Unlock(p) \/ ReadAll(p) \/ ReadMeta(p) \/ ReadContent(p)
Next == \E p \in Procs : Step(p)
Spec == Init /\ [][Next]_vars
FairSpec == Spec /\ \A p \in Procs : WF_vars(Step(p))

AllDone == \A p \in Procs : pc[p] = "done"
OkSet(kinds) == {p \in Procs : Kind[p] \in kinds /\ resp[p] = "ok"}
\* of N writers conditioned on the same generation (or on non-existence) at most one succeeds ...
OneWinner == Cardinality(OkSet({"putIfGen", "delIfGen"})) <= 1 /\ Cardinality(OkSet({"putIfAbsent"})) <= 1
\* ... and exactly one when nothing else interferes
SomeWinner == (AllDone /\ StartPresent /\ (\E p \in Procs : Kind[p] \in {"putIfGen", "delIfGen"}) /\ ~(\E p \in Procs : Kind[p] = "putIfAbsent"))
                 => Cardinality(OkSet({"putIfGen", "delIfGen"})) = 1
\* no update is lost: the metageneration counts the successful patches since the last content write
NoLostPatch == AllDone /\ obj.present /\ obj.gen = Obj0.gen => obj.metagen = Obj0.metagen + Cardinality(OkSet({"patchIfMeta"}))
\* a metageneration-conditioned patch never applies to a state it did not match
PatchOnMatch == Cardinality(OkSet({"patchIfMeta"})) <= 1
\* a read returns metadata and content that belonged together
ReadConsistent == \A p \in Procs : (Kind[p] = "get" /\ pc[p] = "done" /\ got[p].present) =>
                     ((got[p].gen = 1 /\ got[p].val = 0) \/ (got[p].gen > 1 /\ got[p].val \in Procs))
Termination == <>AllDone
=============================================================================
