-------------------------------- MODULE Robust ------------------------------
(***************************************************************************)
(* C20: no request or request mix can crash or wedge either emulator.      *)
(*                                                                         *)
(* Part 1 -- lock discipline (footprint / lockset model).  Every handler   *)
(* is described by the shared variables it touches, how (r/w), and the     *)
(* lock it holds while doing so, in the INTENDED design.  Two accesses     *)
(* conflict when they touch the same variable and one writes; a conflict   *)
(* is protected when both hold the same lock (a read lock and a write lock *)
(* of one RW lock count as the same lock; two read-locked reads do not     *)
(* conflict).  TLC checks the discipline and enumerates the conflicting    *)
(* handler pairs: those are the request mixes the harness runs             *)
(* concurrently under the race detector.                                   *)
(*                                                                         *)
(* Part 2 -- the trace specification of robustness runs: every recorded    *)
(* request must have been answered with a well-formed status (no panic,    *)
(* no aborted connection, no timeout), API-level HTTP errors carry a JSON  *)
(* error body, batch sub-responses equal the standalone replies, and the   *)
(* probe after it (a valid write and a full read-back) shows the service   *)
(* alive with its data intact.                                             *)
(***************************************************************************)
EXTENDS Naturals, Sequences, FiniteSets, Json, TLC

A(v, m, l) == [var |-> v, mode |-> m, lock |-> l]
\* ---- Bigtable: registry under server.mu; schema and rows of a table under table.mu (RW) ----
BtHandlers == [
  CreateTable |-> {A("registry", "w", "srv")},
  DeleteTable |-> {A("registry", "w", "srv"), A("rows", "w", "tbl")},
  ListTables  |-> {A("registry", "r", "srv")},
  GetTable    |-> {A("registry", "r", "srv"), A("schema", "r", "tbl")},
  ModifyFamilies |-> {A("registry", "r", "srv"), A("schema", "w", "tbl"), A("rows", "w", "tbl")},
  DropRowRange |-> {A("registry", "r", "srv"), A("rows", "w", "tbl")},
  GenerateToken |-> {A("registry", "r", "srv")},
  CheckConsistency |-> {A("registry", "r", "srv")},
  MutateRow   |-> {A("registry", "r", "srv"), A("schema", "r", "tbl"), A("rows", "w", "tbl")},
  MutateRows  |-> {A("registry", "r", "srv"), A("schema", "r", "tbl"), A("rows", "w", "tbl")},
  CheckAndMutate |-> {A("registry", "r", "srv"), A("schema", "r", "tbl"), A("rows", "w", "tbl")},
  ReadModifyWrite |-> {A("registry", "r", "srv"), A("schema", "r", "tbl"), A("rows", "w", "tbl")},
  ReadRows    |-> {A("registry", "r", "srv"), A("schema", "r", "tbl"), A("rows", "r", "tbl")},
  SampleRowKeys |-> {A("registry", "r", "srv"), A("rows", "r", "tbl")},
  GcPass      |-> {A("registry", "r", "srv"), A("schema", "r", "tbl"), A("rows", "w", "tbl")} ]
\* ---- GCS: buckets map under the store mutex; an object's record under its lock-map key; an upload session ----
GcsHandlers == [
  CreateBucket |-> {A("buckets", "w", "store")},
  DeleteBucket |-> {A("buckets", "w", "store")},
  Upload      |-> {A("buckets", "r", "store"), A("object", "w", "obj")},
  Patch       |-> {A("buckets", "r", "store"), A("object", "w", "obj")},
  Delete      |-> {A("buckets", "r", "store"), A("object", "w", "obj")},
  Compose     |-> {A("buckets", "r", "store"), A("object", "w", "obj")},
  Copy        |-> {A("buckets", "r", "store"), A("object", "w", "obj")},
  GetMeta     |-> {A("buckets", "r", "store"), A("object", "r", "objsnap")},
  GetMedia    |-> {A("buckets", "r", "store"), A("object", "r", "objsnap")},
  List        |-> {A("buckets", "r", "store"), A("object", "r", "objsnap")},
  ResumableChunk |-> {A("upload", "w", "upload")} ]
\* "objsnap": reads take no object lock; they are safe because a stored record is immutable and replaced atomically
\* under the store mutex (the reader works on a snapshot)
SameLock(a, b) == a.lock = b.lock \/ {a.lock, b.lock} = {"obj", "objsnap"}
Conflict(a, b) == a.var = b.var /\ (a.mode = "w" \/ b.mode = "w")
Protected(a, b) == SameLock(a, b) /\ a.lock # "none" /\ b.lock # "none"
Discipline(H) == \A h1 \in DOMAIN H, h2 \in DOMAIN H : \A a \in H[h1], b \in H[h2] : Conflict(a, b) => Protected(a, b)
ConflictingPairs(H) == {<<h1, h2>> \in (DOMAIN H) \X (DOMAIN H) : \E a \in H[h1], b \in H[h2] : Conflict(a, b)}

ASSUME Discipline(BtHandlers) /\ Discipline(GcsHandlers)

VARIABLE l
Runs == ndJsonDeserialize("trace.ndjson")

\* ---- Part 2: trace acceptance ----
WellFormed(e) ==
  /\ e.kind = "status"                                   \* not "panic", "abort" (connection closed), "timeout"
  /\ (e.sys = "gcs" /\ e.code >= 400) => e.hasBody       \* an HTTP error carries an error body ...
  /\ (e.sys = "gcs" /\ e.code >= 400 /\ e.api) => e.errJSON     \* ... JSON for API-level errors
  /\ e.sys = "bt" => e.code \in 0..16                    \* a gRPC status
ProbeOK(e) == e.probeWrite /\ e.probeRead /\ e.dataIntact
BatchOK(e) == e.ev = "Batch" =>
  /\ Len(e.parts) = Len(e.alone)                         \* one sub-response per part
  /\ \A i \in 1..Len(e.parts) : e.parts[i].code = e.alone[i].code /\ e.parts[i].body = e.alone[i].body
Accepted(e) == WellFormed(e) /\ ProbeOK(e) /\ BatchOK(e)

Init == l = 1
Next == /\ l <= Len(Runs) /\ l' = l + 1
        /\ Accepted(Runs[l]) \/ PrintT(<<"REJECT", ToJson([n |-> Runs[l].n, class |-> Runs[l].class, wf |-> WellFormed(Runs[l]), probe |-> ProbeOK(Runs[l]), batch |-> BatchOK(Runs[l])])>>)
Spec == Init /\ [][Next]_l
PrintPairs == PrintT(<<"PAIRS", ToJson([bt |-> ConflictingPairs(BtHandlers), gcs |-> ConflictingPairs(GcsHandlers)])>>)
Consumed == TLCGet("stats").diameter = Len(Runs) + 1 /\ PrintPairs
=============================================================================
