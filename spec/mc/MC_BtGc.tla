------------------------------- MODULE MC_BtGc ------------------------------
(***************************************************************************)
(* Bounded model for the garbage-collection policy (C16): all rule trees   *)
(* of depth <= 2 over {max-versions 1, max-versions 2, max-age 1 s,        *)
(* max-age 0} on family f (family g has no rule), columns with up to       *)
(* MaxCells versions at the cut-off and one millisecond either side.       *)
(***************************************************************************)
EXTENDS MCBase

CONSTANTS MaxCells, MaxPasses

TName == <<116, 49>>   Parent == <<112>>
FamF == <<102>>  FamG == <<103>>
Keys == {<<97>>, <<98>>}
QQ == <<113>>
VX == <<120>>
Now  == <<0, 0, 5, 0>>                 \* 5 s
Now2 == <<0, 0, 5, 1000>>
\* cut-off of a 1 s max-age at Now is 4 s
Stamps == {<<0, 0, 3, 999000>>, <<0, 0, 4, 0>>, <<0, 0, 4, 1000>>, <<0, 0, 5, 0>>, <<0, 0, 6, 0>>}

Leaves == { [t |-> "maxver", n |-> 1], [t |-> "maxver", n |-> 2], [t |-> "maxage", us |-> <<0, 0, 1, 0>>],
            [t |-> "maxage", us |-> Zero64], [t |-> "maxver", n |-> 0] }
Trees == Leaves \cup {[t |-> "union", rules |-> <<a, b>>] : a \in Leaves, b \in Leaves}
                \cup {[t |-> "inter", rules |-> <<a, b>>] : a \in {[t |-> "maxver", n |-> 1]}, b \in Leaves}
                \cup {[t |-> "union", rules |-> <<[t |-> "inter", rules |-> <<[t |-> "maxver", n |-> 1], [t |-> "maxage", us |-> Zero64]>>], b>>] : b \in Leaves}
                \cup {[t |-> "none"]}

CreateOp(r) == [ev |-> "CreateTable", t |-> TName, parent |-> Parent,
                fams |-> <<[f |-> FamF, rule |-> r], [f |-> FamG, rule |-> [t |-> "none"]]>>]

NPass == Cardinality({i \in 1..Len(path) : path[i].ev = "GcPass"})
Init == \E r \in Trees : InitWith(<<CreateOp(r)>>)

Write == /\ NPass = 0
         /\ \E k \in Keys, f \in {FamF, FamG}, t \in Stamps :
              Do([ev |-> "MutateRow", t |-> TName, k |-> k, now |-> Now,
                  muts |-> <<[m |-> "set", f |-> f, q |-> QQ, ts |-> t, v |-> VX]>>])
Pass  == \E now \in {Now, Now2} : Do([ev |-> "GcPass", t |-> TName, now |-> now])

Next == Write \/ Pass
Spec == Init /\ [][Next]_vars
Constr == TotalCells(st) <= MaxCells /\ NPass <= MaxPasses /\ Dump

Rule == st.tables[TName].fams[FamF]
\* the sequential form the implementation uses equals the set semantics on every reachable column
InvSeqForm == \A k \in DOMAIN st.tables[TName].rows : \A c \in DOMAIN st.tables[TName].rows[k] :
                 \A now \in {Now, Now2} : SeqFormCorrect(Rule, st.tables[TName].rows[k][c], now)
\* a pass never touches family g, and never leaves a condemned cell or removes a retained one
PassLaw == [][last'.op.ev = "GcPass" =>
     /\ \A k \in DOMAIN st.tables[TName].rows :
          LET old == st.tables[TName].rows[k]
              new == IF k \in DOMAIN st'.tables[TName].rows THEN st'.tables[TName].rows[k] ELSE NoRow
          IN \A c \in DOMAIN old :
               IF c[1] = FamG THEN c \in DOMAIN new /\ new[c] = old[c]
               ELSE LET dead == Condemned(Rule, old[c], last'.op.now) IN
                    /\ (c \in DOMAIN new) <=> (DOMAIN old[c] # dead)
                    /\ c \in DOMAIN new => (DOMAIN new[c] = (DOMAIN old[c]) \ dead /\ \A t \in DOMAIN new[c] : new[c][t] = old[c][t])
     /\ DOMAIN st'.tables[TName].rows \subseteq DOMAIN st.tables[TName].rows]_vars
=============================================================================
