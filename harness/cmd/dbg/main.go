package main

import (
	"bytes"
	"encoding/json"
	"fmt"
	"os"

	"verif/harness/internal/bt"
	"verif/harness/internal/j"
)

func main() {
	b, _ := os.ReadFile(os.Args[1])
	var f struct {
		Case struct {
			Program []bt.Op `json:"program"`
		} `json:"case"`
	}
	json.Unmarshal(b, &f)
	for it := 0; it < 10; it++ {
		var out [3][]bt.Op
		for e, eng := range []string{"btree", "mem", "disk"} {
			dir, _ := os.MkdirTemp("", "d")
			s, _ := bt.Start(eng, dir)
			out[e] = s.Run(1, f.Case.Program)
			s.CloseAndRemove()
		}
		for i := range out[0] {
			a, _ := json.Marshal(out[0][i])
			for e := 1; e < 3; e++ {
				x, _ := json.Marshal(out[e][i])
				if !bytes.Equal(a, x) {
					fmt.Printf("iter %d step %d engine %d differs\n A %s\n X %s\n", it, i, e, j.Line(out[0][i]), j.Line(out[e][i]))
					return
				}
			}
		}
	}
	fmt.Println("no diff")
}
