----------------------------- MODULE LockMapTrace ---------------------------
(***************************************************************************)
(* Trace specification for gcsutil.TransientLockMap: a run recorded from   *)
(* the real lock map (trace.json) must be a behaviour of LockMap.          *)
(*                                                                         *)
(* The run is a set of per-goroutine event streams (hooks fire outside any *)
(* common lock, so only the per-goroutine order is certain), plus a global *)
(* sequence number on the events logged while the map mutex is held        *)
(* (those are totally ordered by the mutex).  TLC searches for an          *)
(* interleaving of the streams that LockMap allows; events logged under    *)
(* the mutex also carry the exact map contents (entries and refcounts),    *)
(* which must equal the specification's.  The run is accepted when every   *)
(* stream is consumed and the final snapshot (taken at quiescence) matches.*)
(***************************************************************************)
EXTENDS LockMap, Sequences, Json

Runs == ndJsonDeserialize("trace.ndjson")    \* one run per line: [procs |-> [p1 |-> <<events>>, ...], final |-> snapshot]

\* Order: "log"    consume the events in the order the harness logged them (no search);
\*        "greedy" the next logged event if LockMap allows it now, otherwise some other goroutine's next event;
\*        "any"    every interleaving of the per-goroutine streams
CONSTANT Order
VARIABLES cur, museq, run
tvars == <<vars, cur, museq, run>>

T == Runs[run]
Ev(p) == T.procs[p][cur[p]]
Live == run <= Len(Runs)
Has(p) == Live /\ cur[p] <= Len(T.procs[p])
Adv(p) == cur' = [cur EXCEPT ![p] = @ + 1]
RECURSIVE SumCur(_)
SumCur(S) == IF S = {} THEN 0 ELSE LET p == CHOOSE x \in S : TRUE IN (cur[p] - 1) + SumCur(S \ {p})
\* the logged map contents (sequence of [k, ref]) equal the specification's entries
SnapOK(snap) == /\ {snap[i].k : i \in 1..Len(snap)} = {k \in Keys : inMap'[k]}
                /\ \A i \in 1..Len(snap) : snap[i].ref = ref'[snap[i].k]
InMu(e) == e.seq = museq + 1 /\ museq' = e.seq /\ SnapOK(e.snap)
NoMu == UNCHANGED museq

Match(p) ==
  LET e == Ev(p) IN
  CASE e.pt = "call.Lock"     -> CallLock(p, e.k) /\ NoMu
    [] e.pt = "call.Unlock"   -> (CallUnlock(p) \/ CallBadUnlock(p, e.k)) /\ key'[p] = e.k /\ NoMu
    [] e.pt = "Lock.start"    -> UNCHANGED vars /\ pc[p] = "lk_start" /\ NoMu
    [] e.pt = "Lock.inMu"     -> LockEnter(p) /\ InMu(e)
    [] e.pt = "Lock.afterMu"  -> LockLeave(p) /\ NoMu
    [] e.pt = "cl.ctxChecked" -> LockCheckCtx(p) /\ pc'[p] = "lk_select" /\ NoMu
    [] e.pt = "cl.ctxEnded"   -> LockCheckCtx(p) /\ pc'[p] = "ret_start" /\ NoMu
    [] e.pt = "cl.acquired"   -> LockAcquire(p) /\ NoMu
    [] e.pt = "cl.gaveUp"     -> LockGiveUp(p) /\ NoMu
    [] e.pt = "ret.start"     -> UNCHANGED vars /\ pc[p] = "ret_start" /\ NoMu
    [] e.pt = "ret.inMu"      -> RetEnter(p) /\ InMu(e)
    [] e.pt \in {"Lock.retDone", "Unlock.retDone"} -> RetLeave(p) /\ NoMu
    [] e.pt = "Unlock.start"  -> UNCHANGED vars /\ pc[p] = "ul_start" /\ NoMu
    [] e.pt = "Unlock.inMu"   -> UnlEnter(p) /\ pc'[p] = "ul_inMu" /\ InMu(e)
    [] e.pt = "Unlock.afterMu" -> UnlLeave(p) /\ NoMu
    [] e.pt = "cl.released"   -> UnlRecv(p) /\ pc'[p] = "ret_start" /\ NoMu
    [] e.pt = "panic"         -> (UnlEnter(p) \/ UnlRecv(p)) /\ result'[p] = "panic" /\ NoMu
    \* ending the context of a call that is already past its waiting phase (or cancelled twice) has no effect
    [] e.pt = "cancel"        -> (Cancel(p) \/ ((pc[p] \notin {"lk_start", "lk_inMu", "lk_ctx", "lk_select"} \/ cancelled[p]) /\ UNCHANGED vars)) /\ NoMu
    [] e.pt = "ret"           -> UNCHANGED vars /\ pc[p] = "idle" /\ result[p] = e.res /\ NoMu
    [] OTHER -> FALSE

IsNext(p) == Ev(p).g = SumCur(Procs) + 1
InLogOrder(p) == CASE Order = "log" -> IsNext(p)
                   [] Order = "greedy" -> IsNext(p) \/ ~(\E q \in Procs : Has(q) /\ IsNext(q) /\ ENABLED Match(q))
                   [] OTHER -> TRUE


AllConsumed == \A p \in Procs : cur[p] > Len(T.procs[p])
FinalOK == /\ {T.final[i].k : i \in 1..Len(T.final)} = {k \in Keys : inMap[k]}
           /\ \A i \in 1..Len(T.final) : T.final[i].ref = ref[T.final[i].k] /\ T.final[i].full = full[T.final[i].k]
TInit == Init /\ cur = [p \in Procs |-> 1] /\ museq = 0 /\ run = 1 /\ TLCSet(1, 1)
\* an accepted run hands over to the next one (fresh lock map)
NextRun == /\ Live /\ AllConsumed /\ FinalOK
           /\ run' = run + 1 /\ cur' = [p \in Procs |-> 1] /\ museq' = 0
           /\ mu' = "free" /\ inMap' = [k \in Keys |-> FALSE] /\ ref' = [k \in Keys |-> 0] /\ full' = [k \in Keys |-> FALSE]
           /\ pc' = [p \in Procs |-> "idle"] /\ key' = key /\ cancelled' = [p \in Procs |-> FALSE]
           /\ holds' = [p \in Procs |-> FALSE] /\ round' = [p \in Procs |-> 0] /\ result' = [p \in Procs |-> "none"]
TNext == \/ \E p \in Procs : Has(p) /\ InLogOrder(p) /\ Match(p) /\ Adv(p) /\ UNCHANGED run
         \/ NextRun
TSpec == TInit /\ [][TNext]_tvars

\* high-water mark of the run index (needs -workers 1): the first run TLC cannot explain is HighWater
Mark == TLCSet(1, IF run > TLCGet(1) THEN run ELSE TLCGet(1))
\* all runs are accepted iff the high-water mark reaches Len(Runs) + 1
Report == PrintT(<<"HIGHWATER", ToJson([run |-> TLCGet(1), total |-> Len(Runs)])>>)
\* the design invariants are evaluated in every state of every explaining prefix
TraceInvs == Mutex /\ RefCount /\ FalseOnlyIfCancelled /\ MuShort
=============================================================================
