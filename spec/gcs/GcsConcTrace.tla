----------------------------- MODULE GcsConcTrace ---------------------------
(***************************************************************************)
(* Trace specification for CONCURRENT executions of the Cloud Storage      *)
(* emulator (C07).  A run is the global log of instrumentation events of   *)
(* all in-flight requests (events inside an object's lock are logged while *)
(* it is held: their order is the lock order), the invocation and reply of *)
(* every request, and a final read-back at quiescence.                     *)
(*                                                                         *)
(*  - the events  locked .. done  of a mutation form a critical section    *)
(*    that no other mutation of the SAME object may enter;                 *)
(*  - a mutation takes effect at its .afterStore event (commit), computed  *)
(*    by GcsData.Step on the state at that moment with the generation the  *)
(*    store reported there; one that ends without commit must be one       *)
(*    GcsData fails, and changes nothing;                                  *)
(*  - the status of every reply is the one GcsData computes at the commit; *)
(*    the metadata a successful reply echoes is read after the lock is     *)
(*    released and may be that of any later state of the object up to the  *)
(*    reply (by design: it is a read);                                     *)
(*  - a media read returns generation, metageneration, content type and    *)
(*    content that belonged together at one instant between its start and  *)
(*    its reply;                                                           *)
(*  - the final read-back equals the final model state (no lost update).   *)
(***************************************************************************)
EXTENDS GcsData, Json

Runs == ndJsonDeserialize("trace.ndjson")    \* [id, setup : Seq(op with gen), events, final : obs]

VARIABLES run, l, st, ops, exp, holder, views, reads, committed, half
tvars == <<run, l, st, ops, exp, holder, views, reads, committed, half>>

Live == run <= Len(Runs)
CurRun == Runs[run]
E == CurRun.events[l]

RECURSIVE RunSetup(_, _)
RunSetup(s, setup) == IF setup = <<>> THEN s
                      ELSE LET outs == Step(s, Head(setup)) IN
                           RunSetup((CHOOSE o \in outs : (\E x \in outs : x.resp.ok) => o.resp.ok).st, Tail(setup))
StartOf(r) == RunSetup(InitSt, Runs[r].setup)

Init == /\ run = 1 /\ l = 1 /\ TLCSet(1, 1) /\ TLCSet(2, 1)
        /\ st = IF Len(Runs) > 0 THEN StartOf(1) ELSE InitSt
        /\ ops = <<>> /\ exp = <<>> /\ holder = <<>> /\ views = <<>> /\ reads = <<>> /\ committed = {} /\ half = {}

Put(f, k, v) == [x \in (DOMAIN f) \cup {k} |-> IF x = k THEN v ELSE f[x]]
Del(f, k) == [x \in (DOMAIN f) \ {k} |-> f[x]]
TargetOf(op) == IF op.ev = "Copy" THEN <<op.db, op.dn>> ELSE <<op.b, op.n>>
\* what a reader / a reply can see of an object: absent, or its metadata and content
Shot(s, bn) == IF HasObj(s, bn[1], bn[2]) THEN [present |-> TRUE, view |-> ObjView(Obj(s, bn[1], bn[2])), content |-> Obj(s, bn[1], bn[2]).content]
               ELSE [present |-> FALSE]
\* record the new state of object bn with every reply / read that is still open on it
Note(f, bn, s) == [p \in DOMAIN f |-> IF f[p].bn = bn THEN [f[p] EXCEPT !.shots = @ \cup {Shot(s, bn)}] ELSE f[p]]

\* A lock-free read can see a commit a moment before the committing request logs its .afterStore event (the store
\* call has returned, the hook has not fired yet).  The state such a pending commit produces is known from the log:
\* the holder of the object's lock whose next critical-section event is .afterStore, with the generation logged there.
NextCS(q) == LET js == {j \in (l + 1)..Len(CurRun.events) : CurRun.events[j].p = q /\ CurRun.events[j].pt \in {"afterStore", "done"}} IN
             IF js = {} THEN 0 ELSE CHOOSE j \in js : \A k \in js : j <= k
PendingShots(bn) ==
  IF bn \notin DOMAIN holder THEN {}
  ELSE LET q == holder[bn]  j == NextCS(q) IN
       IF j = 0 \/ CurRun.events[j].pt # "afterStore" THEN {}
       ELSE {Shot(o.st, bn) : o \in {x \in Step(st, [gen |-> CurRun.events[j].gen] @@ ops[q]) : x.resp.ok}}

MetaFn(ps) == PairsToFn(ps, <<>>)
ViewOK(got, v) == /\ got.gen = v.gen /\ got.metagen = v.metagen /\ got.md5 = v.md5 /\ got.size = v.size /\ got.attrs = v.attrs
                  /\ MetaFn(got.meta) = v.meta

Ev ==
  LET e == E  p == e.p IN
  CASE e.pt = "inv" ->
         /\ ops' = Put(ops, p, e.op) /\ exp' = Del(exp, p) /\ committed' = committed \ {p}
         /\ UNCHANGED <<st, holder, views, reads, half>>
    [] e.pt = "locked" ->
         /\ <<e.b, e.n>> \notin DOMAIN holder /\ holder' = Put(holder, <<e.b, e.n>>, p)
         \* file store: a copy has no precondition check; it starts rewriting the destination's files right away
         /\ IF CurRun.store = "file" /\ ops[p].ev = "Copy"
            THEN /\ half' = half \cup {<<e.b, e.n>>}
                 /\ reads' = [q \in DOMAIN reads |-> IF reads[q].bn = <<e.b, e.n>> THEN [reads[q] EXCEPT !.torn = TRUE] ELSE reads[q]]
                 /\ views' = [q \in DOMAIN views |-> IF views[q].bn = <<e.b, e.n>> THEN [views[q] EXCEPT !.torn = TRUE] ELSE views[q]]
            ELSE UNCHANGED <<views, reads, half>>
         /\ UNCHANGED <<st, ops, exp, committed>>
    [] e.pt \in {"beforeRespRead", "Get.afterMeta"} \/ (e.pt = "afterCheck" /\ CurRun.store # "file") ->
         UNCHANGED <<st, ops, exp, holder, views, reads, committed, half>>
    \* file store: from here until the commit the writer rewrites the content file and/or the sidecar, neither atomically
    [] e.pt \in {"afterCheck", "Add.afterContent"} ->
         /\ half' = half \cup {<<e.b, e.n>>}
         /\ reads' = [q \in DOMAIN reads |-> IF reads[q].bn = <<e.b, e.n>> THEN [reads[q] EXCEPT !.torn = TRUE] ELSE reads[q]]
         /\ views' = [q \in DOMAIN views |-> IF views[q].bn = <<e.b, e.n>> THEN [views[q] EXCEPT !.torn = TRUE] ELSE views[q]]
         /\ UNCHANGED <<st, ops, exp, holder, committed>>
    [] e.pt = "afterStore" ->        \* COMMIT, with the generation the store reports at this point
         /\ <<e.b, e.n>> \in DOMAIN holder /\ holder[<<e.b, e.n>>] = p
         /\ LET op == [gen |-> e.gen] @@ ops[p] IN
            \E o \in Step(st, op) :
               /\ o.resp.ok /\ st' = o.st /\ exp' = Put(exp, p, o.resp)
               /\ GenInv(o.st)              \* the generation the store reports respects the versioning laws
               \* what the store shows under the lock is the committed object
               /\ HasObj(o.st, e.b, e.n) => (Obj(o.st, e.b, e.n).gen = e.gen /\ Obj(o.st, e.b, e.n).metagen = e.metagen)
         /\ committed' = committed \cup {p}
         /\ views' = Note(Put(views, p, [bn |-> <<e.b, e.n>>, shots |-> {}, torn |-> FALSE]), <<e.b, e.n>>, st')
         /\ reads' = Note(reads, <<e.b, e.n>>, st')
         /\ half' = half \ {<<e.b, e.n>>}
         /\ UNCHANGED <<ops, holder>>
    [] e.pt = "done" ->
         /\ <<e.b, e.n>> \in DOMAIN holder /\ holder[<<e.b, e.n>>] = p /\ holder' = Del(holder, <<e.b, e.n>>)
         /\ IF p \in committed THEN UNCHANGED exp
            ELSE \E o \in Step(st, ops[p]) : (~o.resp.ok \/ o.st.buckets = st.buckets) /\ exp' = Put(exp, p, o.resp)
         /\ half' = half \ {<<e.b, e.n>>}
         /\ UNCHANGED <<st, ops, views, reads, committed>>
    [] e.pt = "read.start" ->
         /\ reads' = Put(reads, p, [bn |-> <<e.b, e.n>>, shots |-> {Shot(st, <<e.b, e.n>>)}, torn |-> <<e.b, e.n>> \in half])
         /\ UNCHANGED <<st, ops, exp, holder, views, committed, half>>
    [] e.pt = "ret" ->
         /\ IF ops[p].ev = "GetMedia"
            THEN /\ p \in DOMAIN reads
                 /\ LET normal == \E sh \in reads[p].shots \cup PendingShots(reads[p].bn) :
                                     IF sh.present THEN /\ e.resp.code = 200 /\ e.resp.body = sh.content
                                                        /\ e.resp.hgen = sh.view.gen /\ e.resp.hmetagen = sh.view.metagen /\ e.resp.hctype = sh.view.attrs.ct
                                     ELSE e.resp.code = 404
                    IN IF normal THEN TRUE
                       \* KNOWN DEVIATION Dev_FileStoreTornRead (file store): a read that overlaps a writer's window between its
                       \* precondition check and its commit (content file and sidecar are rewritten one after the other, neither
                       \* atomically) may see a mixture of two versions, partial content, or fail
                       ELSE /\ reads[p].torn
                            /\ PrintT(<<"DEVIATION", ToJson([id |-> CurRun.id, l |-> l, dev |-> "Dev_FileStoreTornRead"])>>)
                 /\ reads' = Del(reads, p) /\ UNCHANGED views
            ELSE /\ IF p \in DOMAIN exp
                    THEN /\ e.resp.code \in exp[p].codes
                         \* the metadata a successful write echoes: the object as it was at some point from the commit on
                         /\ (exp[p].ok /\ e.resp.hasView) =>
                              IF \E sh \in views[p].shots \cup PendingShots(views[p].bn) : sh.present /\ ViewOK(e.resp.view, sh.view) THEN TRUE
                              ELSE /\ views[p].torn      \* the echo is a read too: same known deviation
                                   /\ PrintT(<<"DEVIATION", ToJson([id |-> CurRun.id, l |-> l, dev |-> "Dev_FileStoreTornRead"])>>)
                    ELSE \* rejected before reaching the object lock
                         \E o \in Step(st, ops[p]) : ~o.resp.ok /\ e.resp.code \in o.resp.codes
                 /\ views' = (IF p \in DOMAIN views THEN Del(views, p) ELSE views) /\ UNCHANGED reads
         /\ UNCHANGED half
         /\ UNCHANGED <<st, ops, exp, holder, committed>>
    [] OTHER -> FALSE

ObsBucketOK(x, s) ==
  /\ x.exists = HasBucket(s, x.b)
  /\ {x.listed[i] : i \in 1..Len(x.listed)} = DOMAIN Objs(s, x.b)
  /\ \A i \in 1..Len(x.objs) :
       LET o == x.objs[i] IN
       /\ o.present = HasObj(s, x.b, o.n)
       /\ o.present => (ViewOK(o.view, ObjView(Obj(s, x.b, o.n))) /\ o.content = Obj(s, x.b, o.n).content)
FinalOK == holder = <<>> /\ \A i \in 1..Len(CurRun.final.buckets) : ObsBucketOK(CurRun.final.buckets[i], st)

NextRun == /\ run' = run + 1 /\ l' = 1
           /\ st' = IF run + 1 <= Len(Runs) THEN StartOf(run + 1) ELSE InitSt
           /\ ops' = <<>> /\ exp' = <<>> /\ holder' = <<>> /\ views' = <<>> /\ reads' = <<>> /\ committed' = {} /\ half' = {}
Next == /\ Live
        /\ IF l <= Len(CurRun.events) THEN Ev /\ l' = l + 1 /\ UNCHANGED run
           ELSE (FinalOK = TRUE) /\ NextRun
Spec == Init /\ [][Next]_tvars
Mark == IF run > TLCGet(1) THEN TLCSet(1, run) /\ TLCSet(2, l)
        ELSE IF run = TLCGet(1) /\ l > TLCGet(2) THEN TLCSet(2, l) ELSE TRUE
Report == PrintT(<<"HIGHWATER", ToJson([run |-> TLCGet(1), l |-> TLCGet(2), total |-> Len(Runs)])>>)
InvGen == GenInv(st)
=============================================================================
