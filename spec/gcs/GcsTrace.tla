------------------------------- MODULE GcsTrace -----------------------------
(***************************************************************************)
(* Trace specification for the Cloud Storage emulator: executions recorded *)
(* over real HTTP (trace.ndjson: request, reply, and a read-back of every  *)
(* bucket and object name used so far) must be behaviours of GcsData.      *)
(* "Reset" starts a new trace; an unexplained step prints REJECT and the   *)
(* rest of that trace is skipped.                                          *)
(***************************************************************************)
EXTENDS GcsData, GcsList, Json

Trace == ndJsonDeserialize("trace.ndjson")

VARIABLES st, l, dead
vars == <<st, l, dead>>

MetaFn(ps) == PairsToFn(ps, <<>>)
ViewOK(got, v) ==          \* got: [gen, metagen, md5, size, attrs, meta : Seq([k, v])]
  /\ got.gen = v.gen /\ got.metagen = v.metagen /\ got.md5 = v.md5 /\ got.size = v.size
  /\ got.attrs = v.attrs
  /\ Len(got.meta) = Cardinality({got.meta[i].k : i \in 1..Len(got.meta)}) /\ MetaFn(got.meta) = v.meta

\* the Content-ID of a batch sub-response: "response-" put in front of the request's (inside the angle bracket if any)
RespPrefix == <<114, 101, 115, 112, 111, 110, 115, 101, 45>>
RespCid(c) == IF c = <<>> THEN <<>> ELSE IF Head(c) = 60 THEN <<60>> \o RespPrefix \o Tail(c) ELSE RespPrefix \o c

\* a client that cannot handle a 308 answer asks (X-Guploader-No-308: yes) for "resume incomplete" to be delivered as
\* 200 with the real status in X-Http-Status-Code-Override; it must then never see a plain 308
No308(e) == "no308" \in DOMAIN e /\ e.no308
EffCode(e, got) == IF No308(e) /\ got.code = 200 /\ got.override = 308 THEN 308 ELSE got.code

RECURSIVE RespOK(_, _)
RespOK(e, exp) ==
  LET got == e.resp IN
  /\ EffCode(e, got) \in exp.codes
  /\ No308(e) => got.code # 308
  /\ exp.ok =>
       CASE e.ev = "Batch" ->
              \* one sub-response per part, in the order of the parts, each what that request answers on the state the
              \* parts before it produced, and labelled with its part's Content-ID
              /\ Len(got.parts) = Len(e.parts) /\ Len(exp.parts) = Len(e.parts)
              /\ \A i \in 1..Len(e.parts) :
                    /\ RespOK([resp |-> got.parts[i].resp] @@ e.parts[i], exp.parts[i])
                    /\ got.parts[i].cid = RespCid(e.parts[i].cid)
         [] e.ev \in {"Upload", "Compose"} \/ (e.ev = "ResumablePut" /\ EffCode(e, got) = 200) ->
              \* generation and metageneration agree between the reply body and the headers (C10)
              /\ got.view.gen = exp.gen /\ got.hgen = exp.gen /\ got.view.metagen = 1 /\ got.hmetagen = 1
              /\ got.view.md5 = exp.md5 /\ got.view.size = exp.size
         [] e.ev = "ResumablePut" -> exp.persisted > 0 => got.persisted = exp.persisted
         [] e.ev = "GetMedia" -> /\ ("amb" \in DOMAIN exp \/ got.body = exp.body) /\ got.henc = exp.enc /\ got.hgen = exp.view.gen /\ got.hmetagen = exp.view.metagen
                                 /\ got.hctype = exp.view.attrs.ct /\ got.hcd = exp.view.attrs.cd
         [] e.ev \in {"GetMeta", "Patch"} -> ViewOK(got.view, exp.view)
         [] e.ev = "Copy" -> /\ ViewOK(got.view, exp.view) /\ got.done
                             /\ got.rewritten = exp.size /\ got.objectSize = exp.size
         [] e.ev = "List" ->
              LET objs == Objs(st, e.b) IN
              /\ Accept([i \in 1..Len(got.pages) |-> [items |-> [n \in 1..Len(got.pages[i].items) |-> got.pages[i].items[n].n],
                                                       prefixes |-> got.pages[i].prefixes]],
                        got.ended, DOMAIN objs, e.prefix, e.delim, IF e.maxResults = 0 THEN 1000 ELSE e.maxResults)
              \* each item's metadata equals what a metadata GET returns
              /\ \A i \in 1..Len(got.pages) : \A n \in 1..Len(got.pages[i].items) :
                    LET it == got.pages[i].items[n] IN it.n \in DOMAIN objs => ViewOK(it.view, ObjView(objs[it.n]))
         [] OTHER -> TRUE

ObsBucketOK(x, s) ==
  /\ x.exists = HasBucket(s, x.b)
  /\ Len(x.listed) = Cardinality({x.listed[i] : i \in 1..Len(x.listed)})
  /\ {x.listed[i] : i \in 1..Len(x.listed)} = DOMAIN Objs(s, x.b)
  /\ \A i \in 1..Len(x.objs) :
       LET o == x.objs[i] IN
       /\ o.present = HasObj(s, x.b, o.n)
       /\ o.present => /\ ViewOK(o.view, ObjView(Obj(s, x.b, o.n)))
                       /\ o.content = Obj(s, x.b, o.n).content
                       /\ o.mediaGen = Obj(s, x.b, o.n).gen          \* the media download reports the same generation

ObsOK(obs, s) == \A i \in 1..Len(obs.buckets) : ObsBucketOK(obs.buckets[i], s)

StateOK(e, out) == IF "same" \in DOMAIN e.obs THEN out.st.buckets = st.buckets ELSE ObsOK(e.obs, out.st)
\* the state a step leads to takes the generations the implementation reported (e.gen): it must respect the versioning
\* laws (a live object's generation is positive and the greatest its name ever had) -- an outcome that does not is no
\* explanation, so a reported generation that breaks them is a rejected step, not a failure of the validation run
Explains(e, out) == RespOK(e, out.resp) /\ StateOK(e, out) /\ GenInv(out.st)

Init == st = InitSt /\ l = 1 /\ dead = FALSE

Reject(e, why) == PrintT(<<"REJECT", ToJson([tr |-> e.tr, i |-> e.i, ev |-> e.ev, why |-> why])>>)

Next ==
  /\ l <= Len(Trace)
  /\ l' = l + 1
  /\ LET e == Trace[l] IN
     IF e.ev = "Reset" THEN st' = InitSt /\ dead' = FALSE
     ELSE IF dead THEN UNCHANGED <<st, dead>>
     ELSE LET outs == Step(st, e)
              good == {o \in outs : Explains(e, o)}
          IN IF good # {} THEN st' = (CHOOSE o \in good : TRUE).st /\ UNCHANGED dead
             ELSE \* unexplained: report it. When only the reply is wrong (some allowed outcome has exactly the
                  \* state the read-back shows) the rest of the trace is still checked, from that state.
                  LET resync == {o \in outs : StateOK(e, o)} IN
                  /\ Reject(e, IF \E o \in outs : RespOK(e, o.resp) THEN "obs" ELSE "resp")
                  /\ IF resync # {} THEN st' = (CHOOSE o \in resync : TRUE).st /\ UNCHANGED dead
                                    ELSE dead' = TRUE /\ UNCHANGED st

Spec == Init /\ [][Next]_vars
InvGen == GenInv(st)
Consumed == TLCGet("stats").diameter = Len(Trace) + 1
=============================================================================
