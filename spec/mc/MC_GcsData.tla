------------------------------ MODULE MC_GcsData ----------------------------
(***************************************************************************)
(* Bounded model of GcsData for C02 / C10 / C15: two buckets, three names, *)
(* contents "", x, xy; uploads (with a declared MD5 right / wrong),        *)
(* overwrites, patches, deletes, composes (sources 0..3, repeats,          *)
(* destination among sources, missing source, source generation match),    *)
(* copies (same / other bucket, onto itself), reads.                       *)
(***************************************************************************)
EXTENDS GcsMCBase

CONSTANTS MaxDepth, MaxObjs, WithRestart

B1 == <<98, 49>>  B2 == <<98, 50>>
N1 == <<110>>  N2 == <<100, 47, 120>>  N3 == <<109>>      \* n, d/x, m
Names == {N1, N2, N3}
Contents == {<<>>, <<120>>, <<120, 121>>}
Md5Of(c) == <<109, 100, 53>> \o c           \* an opaque token that determines the content
None == CondsOf(U, U, U, U)
CT == <<[k |-> "ct", v |-> <<116>>]>>

Init == InitWith(<<[ev |-> "CreateBucket", b |-> B1]>>)

Up(b, n, c, decl, conds, attrs, meta) ==
  Do([ev |-> "Upload", b |-> b, n |-> n, proto |-> "multipart", content |-> c, md5 |-> Md5Of(c), decl |-> decl,
      attrs |-> attrs, meta |-> meta, conds |-> conds, gen |-> NextGen(st)])
DoUpload == \E b \in {B1, B2}, n \in Names, c \in Contents, decl \in {"none", "wrong"} :
            Up(b, n, c, decl, None, IF c = <<120>> THEN CT ELSE <<>>, IF c = <<>> THEN <<[k |-> <<107>>, v |-> <<118>>]>> ELSE <<>>)
UploadIfAbsent == \E n \in Names, c \in {<<120>>} : Up(B1, n, c, "none", CondsOf(V(0), U, U, U), <<>>, <<>>)
PatchObj == \E n \in Names, a \in {<<>>, <<[k |-> "cc", v |-> <<99>>]>>}, m \in {<<>>, <<[k |-> <<107>>, v |-> <<119>>]>>, <<[k |-> <<106>>, v |-> <<>>]>>}, bad \in BOOLEAN :
              Do([ev |-> "Patch", b |-> B1, n |-> n, attrs |-> a, meta |-> m, conds |-> None, badBody |-> bad])
DeleteObj == \E b \in {B1, B2}, n \in Names : Do([ev |-> "Delete", b |-> b, n |-> n, conds |-> None])
SrcLists == {<<>>} \cup {<<[n |-> a, gm |-> U]>> : a \in Names} \cup {<<[n |-> a, gm |-> U], [n |-> b, gm |-> U]>> : a \in Names, b \in Names}
            \cup {<<[n |-> N1, gm |-> U], [n |-> N3, gm |-> U], [n |-> N1, gm |-> U]>>}
            \cup {<<[n |-> N1, gm |-> V(g)]>> : g \in 1..3}
ComposeObj == \E dst \in Names, sl \in SrcLists :
                Do([ev |-> "Compose", b |-> B1, n |-> dst, srcs |-> sl, attrs |-> CT, meta |-> <<>>, conds |-> None, gen |-> NextGen(st)])
CopyObj == \E n \in Names, db \in {B1, B2}, dn \in {N1, N2} :
             Do([ev |-> "Copy", b |-> B1, n |-> n, db |-> db, dn |-> dn, gen |-> NextGen(st)])
Reads == \E b \in {B1, B2}, n \in {N1, N2} : Do([ev |-> "GetMedia", b |-> b, n |-> n, form |-> "api"]) \/ Do([ev |-> "GetMeta", b |-> b, n |-> n])
Buckets == Do([ev |-> "DeleteBucket", b |-> B2]) \/ Do([ev |-> "GetBucket", b |-> B2])

DoRestart == WithRestart /\ last.op.ev # "Restart" /\ Do([ev |-> "Restart", kill |-> FALSE])
Next == DoRestart \/ DoUpload \/ UploadIfAbsent \/ PatchObj \/ DeleteObj \/ ComposeObj \/ CopyObj \/ Reads \/ Buckets
Spec == Init /\ [][Next]_vars
Constr == Len(path) <= MaxDepth /\ Cardinality(AllNames(st)) <= MaxObjs /\ Dump

(* C15 laws *)
ComposeLaw == [][(last'.op.ev = "Compose" /\ last'.resp.ok) =>
     LET op == last'.op IN
     /\ Obj(st', op.b, op.n).content = ConcatAll([i \in 1..Len(op.srcs) |-> Obj(st, op.b, op.srcs[i].n).content])
     /\ Obj(st', op.b, op.n).md5 = <<>>
     /\ \A i \in 1..Len(op.srcs) : op.srcs[i].n # op.n => Obj(st', op.b, op.srcs[i].n) = Obj(st, op.b, op.srcs[i].n)]_vars
CopyLaw == [][(last'.op.ev = "Copy" /\ last'.resp.ok) =>
     LET op == last'.op  s == Obj(st, op.b, op.n)  d == Obj(st', op.db, op.dn) IN
     /\ d.content = s.content /\ d.md5 = s.md5 /\ d.attrs = s.attrs /\ d.meta = s.meta /\ d.metagen = 1
     /\ (<<op.b, op.n>> # <<op.db, op.dn>>) => Obj(st', op.b, op.n) = s]_vars
\* C02: what a successful upload stored is what a later read returns (reads return the stored record)
\* C09: a restart changes no bucket and no object
RestartLaw == [][last'.op.ev = "Restart" => (st'.buckets = st.buckets /\ st'.maxGen = st.maxGen)]_vars
UploadLaw == [][(last'.op.ev = "Upload" /\ last'.resp.ok) =>
     Obj(st', last'.op.b, last'.op.n).content = last'.op.content /\ Obj(st', last'.op.b, last'.op.n).md5 = last'.op.md5]_vars
=============================================================================
