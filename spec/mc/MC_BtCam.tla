------------------------------ MODULE MC_BtCam ------------------------------
(***************************************************************************)
(* Bounded model for CheckAndMutateRow (C12): a basis of predicate filters *)
(* (including ones that strip every value, limit to zero cells, or are     *)
(* invalid) x row states x pairs of mutation lists (empty, valid, invalid).*)
(***************************************************************************)
EXTENDS MCBase

CONSTANTS MaxCells, MaxCam

TName == <<116, 49>>   Parent == <<112>>
FamF == <<102>>  FamG == <<103>>  FamU == <<117>>
Key == <<97>>
QQ == <<113>>  QE == <<>>
T1 == <<0, 0, 0, 1000>>  T2 == <<0, 0, 0, 2000>>
VX == <<120>>  VY == <<121>>
Clock == <<0, 0, 0, 3000>>

Lit(b) == [k |-> "lit", b |-> b]
Nil == [k |-> "nil"]
Preds == {
  [k |-> "pass", b |-> TRUE], [k |-> "block", b |-> TRUE], [k |-> "pass", b |-> FALSE], [k |-> "block", b |-> FALSE],
  [k |-> "famre", re |-> Lit(103)], [k |-> "qualre", re |-> Lit(113)], [k |-> "valre", re |-> Lit(120)],
  [k |-> "valre", re |-> [k |-> "bad", b |-> 0]], [k |-> "keyre", re |-> Lit(98)],
  [k |-> "keyre", re |-> [k |-> "cat", xs |-> <<Lit(97), [k |-> "star", x |-> [k |-> "any"]]>>]],
  [k |-> "colrange", f |-> FamF, sk |-> "closed", s |-> QQ, ek |-> "closed", e |-> QQ],
  [k |-> "colrange", f |-> FamG, sk |-> "open", s |-> QE, ek |-> "none", e |-> <<>>],
  [k |-> "valrange", sk |-> "open", s |-> VX, ek |-> "none", e |-> <<>>],
  [k |-> "tsrange", t0 |-> T1, t1 |-> T2], [k |-> "tsrange", t0 |-> <<0, 0, 0, 1500>>, t1 |-> Zero64],
  [k |-> "rowlimit", n |-> 0], [k |-> "rowlimit", n |-> 1], [k |-> "rowlimit", n |-> -1], [k |-> "rowoffset", n |-> 1],
  [k |-> "collimit", n |-> 0], [k |-> "strip"], [k |-> "label", l |-> <<108>>],
  [k |-> "chain", fs |-> <<[k |-> "strip"], [k |-> "valre", re |-> Lit(120)]>>],
  [k |-> "chain", fs |-> <<[k |-> "pass", b |-> TRUE], [k |-> "block", b |-> TRUE]>>],
  [k |-> "chain", fs |-> <<[k |-> "pass", b |-> TRUE]>>],
  [k |-> "inter", fs |-> <<[k |-> "block", b |-> TRUE], [k |-> "qualre", re |-> Lit(113)]>>],
  [k |-> "cond", p |-> [k |-> "valre", re |-> Lit(120)], tb |-> [k |-> "block", b |-> TRUE], fb |-> [k |-> "pass", b |-> TRUE]],
  [k |-> "cond", p |-> [k |-> "valre", re |-> Lit(121)], tb |-> [k |-> "pass", b |-> TRUE], fb |-> Nil],
  [k |-> "badsample"] }

SetQ(v, t) == [m |-> "set", f |-> FamF, q |-> QQ, ts |-> t, v |-> v]
MutLists == { <<>>, <<SetQ(VY, T1)>>, <<[m |-> "delrow"]>>,
              <<[m |-> "set", f |-> FamU, q |-> QQ, ts |-> T1, v |-> VY]>>,
              <<SetQ(VX, T2), SetQ(VY, <<0, 0, 0, 1500>>)>>,
              <<[m |-> "set", f |-> FamG, q |-> QE, ts |-> ServerTimeTs, v |-> VX]>> }

CreateOp == [ev |-> "CreateTable", t |-> TName, parent |-> Parent,
             fams |-> <<[f |-> FamF, rule |-> [t |-> "none"]], [f |-> FamG, rule |-> [t |-> "none"]]>>]

NCam == Cardinality({i \in 1..Len(path) : path[i].ev = "CheckAndMutate"})
Init == InitWith(<<CreateOp>>)

Seed == /\ NCam = 0
        /\ \E m \in {SetQ(VX, T1), SetQ(VY, T2), [m |-> "set", f |-> FamG, q |-> QE, ts |-> T1, v |-> VX]} :
             Do([ev |-> "MutateRow", t |-> TName, k |-> Key, now |-> Clock, muts |-> <<m>>])
Cam ==  \E hp \in BOOLEAN, p \in Preds, tm \in MutLists, fm \in MutLists :
          (hp \/ p = [k |-> "pass", b |-> TRUE]) /\
          Do([ev |-> "CheckAndMutate", t |-> TName, k |-> Key, now |-> Clock, hasPred |-> hp, pred |-> p,
              tm |-> tm, fm |-> fm, famOrder |-> <<>>])
\* the same predicate as a read filter: predicate_matched must agree with what a filtered read shows
Read == \E p \in Preds :
          Do([ev |-> "ReadRows", t |-> TName, rs |-> [keys |-> <<Key>>, ranges |-> <<>>], limit |-> 0,
              hasFilter |-> TRUE, filter |-> p, famOrders |-> <<>>])

Next == Seed \/ Cam \/ Read
Spec == Init /\ [][Next]_vars
Constr == TotalCells(st) <= MaxCells /\ NCam <= MaxCam /\ Dump

RowNow == IF Key \in DOMAIN st.tables[TName].rows THEN st.tables[TName].rows[Key] ELSE NoRow
\* design property: exactly the selected branch is applied, with MutateRow semantics
BranchLaw == [][(last'.op.ev = "CheckAndMutate" /\ last'.resp.ok) =>
     LET sel == IF last'.resp.matched THEN last'.op.tm ELSE last'.op.fm
         row1 == IF Key \in DOMAIN st'.tables[TName].rows THEN st'.tables[TName].rows[Key] ELSE NoRow
     IN \E o \in Apply(RowNow, DOMAIN st.tables[TName].fams, sel, last'.op.now) : o.ok /\ o.row = row1
   ]_vars
\* without a predicate the row matches iff it has a cell
NoPredLaw == [][(last'.op.ev = "CheckAndMutate" /\ last'.resp.ok /\ ~last'.op.hasPred) =>
                  (last'.resp.matched <=> RowNow # NoRow)]_vars
=============================================================================
